import json,sys
sys.path.insert(0,'/verif')
from manifest_src import CHECKS, NA
props=[json.loads(l)['id'] for l in open('/verif/properties.jsonl')]
checks=[]
for pid in props:
    if pid in CHECKS:
        c=CHECKS[pid]
        checks.append({
          "property_id":pid,
          "quick_cmd":"./check %s --tier quick"%pid,
          "thorough_cmd":"./check %s --tier thorough"%pid,
          "evidence_file":"evidence/%s.json"%pid,
          "replay_cmd_template":"./check %s --replay {path}"%pid,
          "engine":c['engine'],
          "level_claimed":{"category":c.get('category','model_checking'),"text":c['text'],"design_ref":c['ref']},
          "level_note":c['note'],
          "technique":c['technique']})
na=[{"property_id":p,"reason":NA[p]} for p in props if p not in CHECKS]
assert all(p in NA for p in props if p not in CHECKS)
m={"version":1,"setup_cmd":"./setup.sh",
 "hooks":{"guard":"PARSO_VERIF","enable":"none needed: no hook commits in /repo; every stub is installed from the harness process; checks export PARSO_VERIF=1 (unused by parso)","baseline_off_cmd":"cd /repo && /venv/bin/python -m pytest -ra -q -p no:cacheprovider --timeout=900 --continue-on-collection-errors","source_commits":[],"add_only":True},
 "engines":[
  {"name":"z-grammar","path":"vp/zgrammar.py, vp/tables.py, vp/ebnf.py","serves_properties":["C08","C06","C05"],"kind_free_text":"z3 regular-language / propositional / Datalog queries over the live generated parser tables vs an independent reading of the grammar text"},
  {"name":"z-regex","path":"vp/rx.py","serves_properties":["C09","C10","C15","C03","C01"],"kind_free_text":"sre parse tree of parso's compiled patterns translated to z3 regular expressions; inclusion / equality / emptiness lemmas"},
  {"name":"x-crosshair","path":"vp/xh.py, vp/chplugin.py, vp/harness/","serves_properties":["C01","C02","C03","C04","C05","C06","C07","C09","C11","C13","C15","C16","C17","C18","C19","C20"],"kind_free_text":"CrossHair 0.0.110 symbolic execution (z3) of the real parso functions under PEP 316 contracts, one condition per process, counterexamples replayed on plain CPython"}],
 "checks":checks,
 "notes":"All checks regenerate their encodings from /repo's working tree on every run. Exit 0 = nothing outside known_findings.json violated; 1 = replaying counterexample (VIOLATION line); 2 = harness error / nothing decided. Inconclusive obligations (solver unknown, CrossHair cap) are listed in the evidence and never counted as discharged.",
 "not_applicable":na}
json.dump(m,open('/verif/MANIFEST.json','w'),indent=1)
print(len(checks),'checks',len(na),'n/a')
