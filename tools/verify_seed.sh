#!/bin/sh
# usage: verify_seed.sh <prop> <k>   -- confirms a candidate from /tmp/wt/out/<prop>/ in a scratch worktree of /repo HEAD
# and, if confirmed, stores it as /verif/seeded/<prop>-<k>/
P=$1; K=$2; BASE=${SRCBASE:-/tmp/wt}; TAG=${SEEDTAG:-}; SRC=$BASE/out/$P; WT=/tmp/wt/verify_${P}_${K}_$$
git -C /repo worktree add -q --detach $WT HEAD || exit 2
cd $WT
DEMO=$SRC/demo$K.py
sed "s#$BASE/$P#$WT#g" $DEMO > $WT/_demo.py
PYTHONPATH=$WT /venv/bin/python _demo.py >/tmp/wt/clean_$P_$K.log 2>&1; CLEAN=$?
if ! git apply $SRC/patch$K.diff; then echo "$P-$K: patch does not apply"; cd /; git -C /repo worktree remove --force $WT; exit 1; fi
TESTS=$(/venv/bin/python -m pytest -q -p no:cacheprovider 2>&1 | tail -1)
PYTHONPATH=$WT /venv/bin/python _demo.py >/tmp/wt/patched_$P_$K.log 2>&1; PATCHED=$?
cd /; git -C /repo worktree remove --force $WT
echo "$P-$K: clean_exit=$CLEAN patched_exit=$PATCHED tests: $TESTS"
case "$TESTS" in *"1987 passed"*) ;; *) echo "  REJECTED (tests)"; exit 1;; esac
if [ $CLEAN -ne 0 ] || [ $PATCHED -eq 0 ]; then echo "  REJECTED (demo)"; exit 1; fi
D=/verif/seeded/$P-$TAG$K; mkdir -p $D
cp $SRC/patch$K.diff $D/patch.diff; cp $DEMO $D/demo.py; cp $SRC/notes$K.md $D/notes.md 2>/dev/null
python3 - <<PY
import json
json.dump({"property":"$P","source":"independent sub-agent given only the property text and a scratch worktree",
 "needs_to_manifest":open("$D/notes.md").read() if __import__('os').path.exists("$D/notes.md") else "",
 "confirmed":{"suite_with_patch":"$TESTS","demo_exit_clean":$CLEAN,"demo_exit_patched":$PATCHED,
   "how":"tools/verify_seed.sh: scratch worktree of /repo HEAD, demo run before and after git apply, full pytest suite with the patch"}},
 open("$D/meta.json","w"),indent=1)
PY
echo "  kept as $D"
