"""Oracle validation (not a deciding step): every oracle predicate is evaluated by plain Python on the
repository's own test material; a failure on the clean tree is triaged before solver verdicts are believed."""
import ast
import glob
import os
import sys

sys.path.insert(0, os.path.dirname(os.path.dirname(os.path.abspath(__file__))))
sys.path.insert(0, '/repo')


def corpus():
    out = []
    for p in glob.glob('/repo/test/**/*.py', recursive=True) + glob.glob('/repo/parso/**/*.py', recursive=True):
        try:
            src = open(p, encoding='utf8', newline='').read()
        except Exception:
            continue
        out.append((p, src))
        # string literals inside test files are the snippets the suite feeds to parso
        if '/test/' in p:
            try:
                tree = ast.parse(src)
            except SyntaxError:
                continue
            for n in ast.walk(tree):
                if isinstance(n, ast.Constant) and isinstance(n.value, str) and 0 < len(n.value) < 400:
                    out.append((p + ':lit', n.value))
    seen, uniq = set(), []
    for p, s in out:
        if s not in seen:
            seen.add(s)
            uniq.append((p, s))
    return uniq


def safe(f, *a):
    try:
        return f(*a)
    except RecursionError:
        return None
    except Exception as e:
        return 'EXC %r' % (e,)


def main():
    which = sys.argv[1:] or ['tok']
    C = corpus()
    print(len(C), 'texts')
    bad = 0
    if 'tok' in which:
        from vp.harness import tok
        for p, s in C:
            for v in ((3, 6), (3, 10), (3, 14)):
                toks = list(tok.tokenize(s, version_info=v))
                if not tok.check_stream(s, toks):
                    bad += 1
                    if bad < 15:
                        print('TOK', p, v, repr(s[:60]), tok.WHY)
    if 'tree' in which:
        import parso
        from vp import treeoracle as TO
        from collections import Counter
        cnt = Counter()
        for v in ('3.6', '3.10', '3.14'):
            g = parso.load_grammar(version=v)
            vi = tuple(int(x) for x in v.split('.'))
            for p, s in C:
                m = g.parse(s)
                for name, r in (('c01', TO.check_roundtrip(m, s)), ('c02', TO.check_wellformed(m)),
                                ('c03', TO.check_positions(m, s)), ('c05', TO.check_conformance(m, vi)),
                                ('c07', TO.check_strict_agrees(g, m, s)), ('c13', safe(TO.check_error_listing, g, m)),
                                ('c20', safe(TO.check_pep8, g, m, s)), ('c19', safe(TO.check_serialisation, m)),
                                ('c19r', safe(TO.check_refactor, g, m, s, len(s), 'R'))):
                    if r is not None:
                        bad += 1
                        cnt[name] += 1
                        if cnt[name] <= 12:
                            print(name.upper(), v, repr(s[:70]), '->', r[:200])
        print(cnt)
    print('failures:', bad)


main()
