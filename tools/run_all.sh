#!/bin/sh
# runs every registered check (tier from $1, default quick) sequentially, prints a one-line summary each
cd "$(dirname "$0")/.."
TIER=${1:-quick}
for p in C01 C02 C03 C04 C05 C06 C07 C08 C09 C10 C11 C13 C15 C16 C17 C18 C19 C20; do
  s=$(date +%s)
  ./check $p --tier $TIER > /tmp/run_all_$p.log 2>&1; rc=$?
  e=$(date +%s)
  echo "$p rc=$rc $((e-s))s $(grep "tier=$TIER:" /tmp/run_all_$p.log | cut -c1-200)"
  grep -E "^VIOLATION|^HARNESS-ERROR|^  inconclusive" /tmp/run_all_$p.log | cut -c1-220 | head -8
done
