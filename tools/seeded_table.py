#!/usr/bin/env python3
"""Writes the table of seeded changes vs. checks into DESIGN.md (between the markers)."""
import json
import os
import re

ROOT = os.path.dirname(os.path.dirname(os.path.abspath(__file__)))
res = json.load(open(os.path.join(ROOT, 'seeded', 'RESULTS.json')))
rows = ['| seed | breaks | needs to manifest (short) | check run | detected | by obligation |', '|---|---|---|---|---|---|']
for sid in sorted(os.listdir(os.path.join(ROOT, 'seeded'))):
    d = os.path.join(ROOT, 'seeded', sid)
    if not os.path.isdir(d):
        continue
    meta = json.load(open(os.path.join(d, 'meta.json')))
    need = (meta.get('summary') or meta.get('needs_to_manifest', '')).strip().split('\n')
    need = next((l for l in need if l.strip() and not l.startswith('#')), '')[:110].replace('|', '/')
    r = res.get(sid, {})
    if not r:
        rows.append('| %s | %s | %s | - | not run | |' % (sid, meta['property'], need))
    for k, v in sorted(r.items()):
        ob = '; '.join(o.replace('obligation: ', '') for o in v.get('obligations', [])[:2])[:120].replace('|', '/')
        rows.append('| %s | %s | %s | %s | %s | %s |' % (sid, meta['property'], need, k, 'yes' if v['detected'] else ('harness error' if v['exit'] == 2 else 'NO'), ob))
table = '\n'.join(rows)
p = os.path.join(ROOT, 'DESIGN.md')
s = open(p).read()
if 'SEEDED_TABLE_PLACEHOLDER' in s:
    s = s.replace('SEEDED_TABLE_PLACEHOLDER', '<!-- seeded-table-begin -->\n' + table + '\n<!-- seeded-table-end -->')
else:
    s = re.sub(r'<!-- seeded-table-begin -->.*<!-- seeded-table-end -->', '<!-- seeded-table-begin -->\n' + table.replace('\\', '\\\\') + '\n<!-- seeded-table-end -->', s, flags=re.S)
open(p, 'w').write(s)
print(len(rows) - 2, 'rows')
