#!/usr/bin/env python3
"""Run the check(s) of a property against seeded changes. Usage:
   tools/run_seeded.py [--tier quick] [--props C16,C17] [--jobs 2] [seed-id ...]
Each seed is applied to its own scratch worktree of /repo HEAD (removed afterwards); /repo itself and the
committed evidence are never touched (VP_REPO / VP_OUT point the check at the scratch copy)."""
import json
import os
import subprocess
import sys
import time
from concurrent.futures import ThreadPoolExecutor

ROOT = os.path.dirname(os.path.dirname(os.path.abspath(__file__)))
SEEDED = os.path.join(ROOT, 'seeded')
RESFILE = os.path.join(SEEDED, 'RESULTS.json')


def run_seed(sid, tier, props_override):
    d = os.path.join(SEEDED, sid)
    meta = json.load(open(os.path.join(d, 'meta.json')))
    props = props_override or [meta['property']] + meta.get('also_check', [])
    wt = '/tmp/seedwt/%s_%d' % (sid, os.getpid())
    out = '/tmp/seedwt/out_%s_%d' % (sid, os.getpid())
    os.makedirs('/tmp/seedwt', exist_ok=True)
    res = {}
    try:
        subprocess.run(['git', '-C', '/repo', 'worktree', 'add', '-q', '--detach', wt, 'HEAD'], check=True)
        p = subprocess.run(['git', '-C', wt, 'apply', os.path.join(d, 'patch.diff')], capture_output=True, text=True)
        if p.returncode != 0:
            print(sid, 'PATCH DOES NOT APPLY', p.stderr[:200])
            return sid, res
        for prop in props:
            t0 = time.time()
            env = dict(os.environ, VP_REPO=wt, VP_OUT=out)
            q = subprocess.run([os.path.join(ROOT, 'check'), prop, '--tier', tier], capture_output=True, text=True, cwd=ROOT, env=env)
            viol = [l for l in q.stdout.splitlines() if l.startswith('VIOLATION')]
            obl = [l.strip() for l in q.stdout.splitlines() if l.strip().startswith('obligation:')]
            res[prop + '/' + tier] = {'exit': q.returncode, 'detected': q.returncode == 1 and bool(viol), 'violations': len(viol),
                                      'obligations': obl[:6], 'wall_s': round(time.time() - t0, 1)}
            print('%-8s %-4s %-8s exit=%d detected=%s %s (%.0fs)' % (sid, prop, tier, q.returncode, q.returncode == 1 and bool(viol),
                                                                obl[:3], time.time() - t0))
            if q.returncode == 2:
                print('   harness error:', [l[:300] for l in q.stdout.splitlines() if 'HARNESS-ERROR' in l][:2])
            sys.stdout.flush()
    finally:
        subprocess.run(['git', '-C', '/repo', 'worktree', 'remove', '--force', wt], capture_output=True)
        subprocess.run(['rm', '-rf', out])
    return sid, res


def main():
    args = sys.argv[1:]
    tier, props_override, ids, jobs = 'quick', None, [], 1
    while args:
        a = args.pop(0)
        if a == '--tier':
            tier = args.pop(0)
        elif a == '--props':
            props_override = args.pop(0).split(',')
        elif a == '--jobs':
            jobs = int(args.pop(0))
        else:
            ids.append(a)
    if not ids:
        ids = sorted(d for d in os.listdir(SEEDED) if os.path.isdir(os.path.join(SEEDED, d)))
    with ThreadPoolExecutor(max_workers=jobs) as ex:
        for sid, res in ex.map(lambda s: run_seed(s, tier, props_override), ids):
            results = json.load(open(RESFILE)) if os.path.exists(RESFILE) else {}
            results.setdefault(sid, {}).update(res)
            json.dump(results, open(RESFILE, 'w'), indent=1, sort_keys=True)


main()
