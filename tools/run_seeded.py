#!/usr/bin/env python3
"""Apply each seeded change to /repo, run the check(s) of its property, undo. Usage:
   tools/run_seeded.py [--tier quick] [--props C16,C17] [seed-id ...]
Never leaves /repo modified (git checkout -- . in finally)."""
import json
import os
import subprocess
import sys
import time

ROOT = os.path.dirname(os.path.dirname(os.path.abspath(__file__)))
SEEDED = os.path.join(ROOT, 'seeded')


def main():
    args = sys.argv[1:]
    tier = 'quick'
    props_override = None
    ids = []
    while args:
        a = args.pop(0)
        if a == '--tier':
            tier = args.pop(0)
        elif a == '--props':
            props_override = args.pop(0).split(',')
        else:
            ids.append(a)
    if not ids:
        ids = sorted(d for d in os.listdir(SEEDED) if os.path.isdir(os.path.join(SEEDED, d)))
    assert subprocess.run(['git', '-C', '/repo', 'status', '--porcelain'], capture_output=True, text=True).stdout.strip() == '', '/repo not clean'
    resfile = os.path.join(SEEDED, 'RESULTS.json')
    results = json.load(open(resfile)) if os.path.exists(resfile) else {}
    for sid in ids:
        d = os.path.join(SEEDED, sid)
        meta = json.load(open(os.path.join(d, 'meta.json')))
        props = props_override or [meta['property']] + meta.get('also_check', [])
        try:
            p = subprocess.run(['git', '-C', '/repo', 'apply', os.path.join(d, 'patch.diff')], capture_output=True, text=True)
            if p.returncode != 0:
                print(sid, 'PATCH DOES NOT APPLY', p.stderr[:200])
                continue
            for prop in props:
                t0 = time.time()
                q = subprocess.run([os.path.join(ROOT, 'check'), prop, '--tier', tier], capture_output=True, text=True, cwd=ROOT)
                viol = [l for l in q.stdout.splitlines() if l.startswith('VIOLATION')]
                obl = [l.strip() for l in q.stdout.splitlines() if l.strip().startswith('obligation:')]
                results.setdefault(sid, {})[prop + '/' + tier] = {
                    'exit': q.returncode, 'detected': q.returncode == 1 and bool(viol), 'violations': len(viol),
                    'obligations': obl[:6], 'wall_s': round(time.time() - t0, 1)}
                print('%-8s %-4s %-8s exit=%d detected=%s %s (%.0fs)' % (sid, prop, tier, q.returncode, q.returncode == 1 and bool(viol),
                                                                    obl[:3], time.time() - t0))
                if q.returncode == 2:
                    print('   harness error:', [l for l in q.stdout.splitlines() if 'HARNESS-ERROR' in l][:2])
                sys.stdout.flush()
        finally:
            subprocess.run(['git', '-C', '/repo', 'checkout', '--', '.'])
            subprocess.run(['git', '-C', '/repo', 'clean', '-fdq', 'parso'])
        json.dump(results, open(resfile, 'w'), indent=1, sort_keys=True)


main()
