"""Derivation generator over the REAL generated tables of a grammar (C06 engine level): choices select arcs,
everything else is completed with shortest sentences; renders the token sequence as text and builds the
expected tree with the documented collapsing conventions."""
import heapq

NT_SPLICE = ('typedargslist', 'varargslist')


def _NO_CHOICE(rule, opts):
    return None


class Deriver:
    def __init__(self, pgen_grammar):
        self.g = pgen_grammar
        self.dfas = pgen_grammar.nonterminal_to_dfas
        self.nts = set(self.dfas)
        self._min_rule = {}
        self._solve_min()

    # ---- shortest sentences ---------------------------------------------------------------------
    def _solve_min(self):
        """min_len[rule] = number of tokens of a shortest sentence; dist[(rule, id(state))] = shortest completion"""
        INF = 10 ** 9
        ml = {r: INF for r in self.nts}
        changed = True
        self.dist = {}
        while changed:
            changed = False
            for r, states in self.dfas.items():
                # Bellman-Ford over the rule's DFA backwards
                d = {id(s): (0 if s.is_final else INF) for s in states}
                for _ in range(len(states) + 1):
                    upd = False
                    for s in states:
                        for lab, nxt in s.arcs.items():
                            if self._banned(r, s, lab):
                                continue
                            w = ml[lab] if lab in self.nts else 1
                            if d[id(nxt)] + w < d[id(s)]:
                                d[id(s)] = d[id(nxt)] + w
                                upd = True
                    if not upd:
                        break
                for s in states:
                    self.dist[(r, id(s))] = d[id(s)]
                if d[id(states[0])] < ml[r]:
                    ml[r] = d[id(states[0])]
                    changed = True
        self.min_len = ml

    def _banned(self, rule, state, label):
        # token sequences the tokenizer cannot produce (excluded by the property): a NEWLINE as a statement of
        # its own; the `<>` operator
        if rule in ('file_input', 'stmt') and label == 'NEWLINE':
            return True
        if label in ("'<>'", '"<>"'):
            return True
        return False

    def options(self, rule, state):
        opts = [lab for lab in sorted(state.arcs) if not self._banned(rule, state, lab)
                and self.dist[(rule, id(state.arcs[lab]))] < 10 ** 9
                and (lab not in self.nts or self.min_len[lab] < 10 ** 9)]
        if state.is_final:
            opts.append(None)       # stop
        return opts

    def best(self, rule, state):
        """label of a shortest completion step, or None (= stop)"""
        if state.is_final:
            return None
        best, bl = None, 10 ** 9
        for lab in sorted(state.arcs):
            if self._banned(rule, state, lab):
                continue
            w = (self.min_len[lab] if lab in self.nts else 1) + self.dist[(rule, id(state.arcs[lab]))]
            if w < bl:
                best, bl = lab, w
        return best

    # ---- derivation ----------------------------------------------------------------------------
    def derive(self, rule, chooser, used, budget, depth=0):
        """-> (rule, [children]); children are derivations or ('LEAF', label).  chooser(options) -> index or None
        (None = no choice left: complete minimally)"""
        state = self.dfas[rule][0]
        children = []
        steps = 0
        while True:
            opts = self.options(rule, state)
            # a free choice is only spent where there is something to choose
            pick = chooser(rule, opts) if budget[0] > 0 and steps < 12 and len(opts) > 1 else None
            if pick is None:
                lab = opts[0] if len(opts) == 1 else self.best(rule, state)
            else:
                budget[0] -= 1
                lab = opts[pick % len(opts)]
            if lab is None:
                break
            used.add((rule, self.dfas[rule].index(state), lab))
            if lab in self.nts:
                # the free choices walk the focus rule's automaton and the rules it calls directly; everything
                # deeper is completed minimally
                if depth < 1:
                    children.append(self.derive(lab, chooser, used, budget, depth + 1))
                else:
                    children.append(self.derive(lab, _NO_CHOICE, used, [0], depth + 1))
            else:
                children.append(('LEAF', lab))
            state = state.arcs[lab]
            steps += 1
        return (rule, children)

    # a minimal sentence of `start` that contains an occurrence of `target`, derived with `inner` there
    def path_to(self, start, target):
        """shortest chain of (rule, arc label) from start down to target"""
        prev = {start: None}
        queue = [start]
        for r in queue:
            if r == target:
                break
            for s in self.dfas[r]:
                for lab in sorted(s.arcs):
                    if lab in self.nts and lab not in prev and not self._banned(r, s, lab) and self.min_len[lab] < 10 ** 9:
                        prev[lab] = r
                        queue.append(lab)
        if target not in prev:
            return None
        chain = [target]
        while prev[chain[-1]] is not None:
            chain.append(prev[chain[-1]])
        return list(reversed(chain))

    def derive_with_focus(self, start, target, chooser, used, budget):
        chain = self.path_to(start, target)
        if chain is None:
            return None
        return self._focus(chain, 0, chooser, used, budget)

    def _focus(self, chain, i, chooser, used, budget):
        rule = chain[i]
        if i == len(chain) - 1:
            return self.derive(rule, chooser, used, budget)
        want = chain[i + 1]
        # shortest path through an arc labelled `want`
        states = self.dfas[rule]
        best = None
        # Dijkstra from state 0 to any state with an arc `want`
        dist0 = {id(states[0]): (0, [])}
        heap = [(0, 0, states[0], [])]
        n = 0
        while heap:
            d, _, s, path = heapq.heappop(heap)
            if want in s.arcs and not self._banned(rule, s, want):
                tail = self.dist[(rule, id(s.arcs[want]))]
                if best is None or d + tail < best[0]:
                    best = (d + tail, path, s)
            for lab in sorted(s.arcs):
                if self._banned(rule, s, lab):
                    continue
                w = self.min_len[lab] if lab in self.nts else 1
                nd = d + w
                nx = s.arcs[lab]
                if id(nx) not in dist0 or nd < dist0[id(nx)][0]:
                    dist0[id(nx)] = (nd, path + [lab])
                    n += 1
                    heapq.heappush(heap, (nd, n, nx, path + [lab]))
        _, path, s = best
        children = []
        none = lambda r, o: None
        state = states[0]
        for lab in path:
            children.append(self.derive(lab, none, used, [0]) if lab in self.nts else ('LEAF', lab))
            state = state.arcs[lab]
        used.add((rule, states.index(state), want))
        children.append(self._focus(chain, i + 1, chooser, used, budget))
        state = state.arcs[want]
        while True:
            lab = self.best(rule, state)
            if lab is None:
                break
            children.append(self.derive(lab, none, used, [0]) if lab in self.nts else ('LEAF', lab))
            state = state.arcs[lab]
        return (rule, children)


# ---- rendering ---------------------------------------------------------------------------------
SPELL = {'NAME': 'a', 'NUMBER': '1', 'STRING': "'s'", 'FSTRING_START': 'f"', 'FSTRING_STRING': 'x', 'FSTRING_END': '"',
         'ENDMARKER': '', 'NEWLINE': '\n'}


def tokens_of(d, ctx=None, out=None):
    """flat list of (label, rule it is a direct child of)"""
    if out is None:
        out = []
    rule, children = d
    for c in children:
        if c[0] == 'LEAF':
            out.append((c[1], rule))
        else:
            tokens_of(c, rule, out)
    return out


def render(d):
    from ast import literal_eval
    toks = tokens_of(d)
    text = ''
    level = 0
    at_line_start = True
    fdepth = 0
    prev = None
    for lab, rule in toks:
        if lab == 'INDENT':
            level += 1
            continue
        if lab == 'DEDENT':
            level -= 1
            continue
        if lab == 'NEWLINE':
            text += '\n'
            at_line_start = True
            prev = None
            continue
        s = SPELL[lab] if lab in SPELL else literal_eval(lab)
        if lab == 'ENDMARKER':
            continue
        if at_line_start:
            text += '    ' * level
            at_line_start = False
        else:
            tight = (fdepth > 0 and (rule in ('fstring', 'fstring_format_spec', 'fstring_content') or lab.startswith('FSTRING')
                                     or (prev is not None and (prev[1] in ('fstring', 'fstring_format_spec', 'fstring_content')
                                                               or prev[0].startswith('FSTRING')))
                                     or s == '}' or (rule == 'fstring_expr' and s == '{')
                                     or (prev is not None and prev[2] == '{')))
            if not tight:
                text += ' '
        text += s
        if lab == 'FSTRING_START':
            fdepth += 1
        elif lab == 'FSTRING_END':
            fdepth -= 1
        prev = (lab, rule, s)
    return text


# ---- expected tree signature ---------------------------------------------------------------------
def sig_derivation(d):
    from ast import literal_eval
    rule, children = d
    out = []
    for c in children:
        if c[0] == 'LEAF':
            lab = c[1]
            if lab in ('INDENT', 'DEDENT'):
                continue
            out.append(SPELL[lab] if lab in SPELL else literal_eval(lab))
        else:
            s = sig_derivation(c)
            if isinstance(s, tuple) and s[0] in NT_SPLICE and rule in ('parameters', 'lambdef', 'lambdef_nocond'):
                out.extend(s[1])
            else:
                out.append(s)
    if len(out) == 1 and rule not in ('file_input', 'eval_input'):
        return out[0]
    name = 'lambdef' if rule == 'lambdef_nocond' else rule
    return (name, out)


def sig_tree(n):
    ch = getattr(n, 'children', None)
    if ch is None:
        return n.value
    out = []
    for c in ch:
        if c.type == 'param':
            for x in c.children:
                out.append(sig_tree(x))
        else:
            out.append(sig_tree(c))
    return (n.type, out)


def unproducible(d):
    """token sequences the tokenizer cannot produce: inside an f-string replacement field a ':' (or ':=') at
    bracket depth 0 always starts the format spec, so e.g. a bare lambda or a walrus there is not expressible"""
    from ast import literal_eval
    stack = []          # one entry per open f-string expression: bracket depth inside it
    prev_lab = None
    for lab, rule in tokens_of(d):
        if lab in ('INDENT', 'DEDENT'):
            continue
        if lab == 'FSTRING_STRING' and prev_lab == 'FSTRING_STRING':
            return True     # two adjacent literal parts are one token for the tokenizer
        prev_lab = lab
        s = SPELL[lab] if lab in SPELL else literal_eval(lab)
        if rule == 'fstring_expr' and s == '{':
            stack.append(0)
        elif rule == 'fstring_expr' and s == '}':
            if stack:
                stack.pop()
        elif stack:
            if s in '([{' and s:
                stack[-1] += 1
            elif s in ')]}' and s:
                stack[-1] -= 1
            elif s in (':', ':=') and stack[-1] == 0 and rule != 'fstring_format_spec':
                return True
    return False
