"""Z-regex: Python `re` patterns (sre parse tree) -> z3 regular expressions.

Semantics: *existence of a match*.  `tr(p)` is the language of p itself; `tr_prefix(p)` is the set of
whole inputs w such that `p.match(w)` succeeds (L(p) . Sigma*, with \\Z meaning end of input) - exact for
Python's backtracking engine because backtracking is complete for existence.  Look-around and
back-references are not translated (Unsupported is raised; lemmas needing them are done in X harnesses).

Alphabet: z3's character sort ends at U+2FFFF.  `Translator.uniform_above` records whether every
character set met is uniform on [U+30000, U+10FFFF] (contains all or none of it); if so a lemma
extends to all code points by symmetry, otherwise it is reported as bounded to <= U+2FFFF.
"""
import re
import re._constants as sc
import re._parser as sp
import time

import z3

MAXU = 0x2FFFF
HIGH_LO, HIGH_HI = 0x30000, 0x10FFFF
STR = z3.StringSort()
RES = z3.ReSort(STR)
EMPTY = z3.Empty(RES)
FULL = z3.Full(RES)
EPS = z3.Re("")


class Unsupported(Exception):
    pass


def _rng(lo, hi):
    return z3.Range(chr(lo), chr(hi)) if lo != hi else z3.Re(chr(lo))


def union(xs):
    xs = list(xs)
    if not xs:
        return EMPTY
    return xs[0] if len(xs) == 1 else z3.Union(*xs)


def cat(xs):
    xs = list(xs)
    if not xs:
        return EPS
    return xs[0] if len(xs) == 1 else z3.Concat(*xs)


ANYCHAR = _rng(0, MAXU)

_cat_cache = {}


def _category_ranges(name):
    if name not in _cat_cache:
        pred = {'word': lambda s: s.isalnum() or s == '_', 'digit': lambda s: s.isdecimal(),
                'space': lambda s: s.isspace()}[name]
        out, start = [], None
        for c in range(HIGH_HI + 1):
            if pred(chr(c)):
                if start is None:
                    start = c
            elif start is not None:
                out.append((start, c - 1))
                start = None
        if start is not None:
            out.append((start, HIGH_HI))
        _cat_cache[name] = out
    return _cat_cache[name]


def _normalise(ranges):
    out = []
    for lo, hi in sorted(ranges):
        if out and lo <= out[-1][1] + 1:
            out[-1] = (out[-1][0], max(out[-1][1], hi))
        else:
            out.append((lo, hi))
    return out


def _complement(ranges):
    out, cur = [], 0
    for lo, hi in _normalise(ranges):
        if lo > cur:
            out.append((cur, lo - 1))
        cur = max(cur, hi + 1)
    if cur <= HIGH_HI:
        out.append((cur, HIGH_HI))
    return out


class Translator:
    def __init__(self, flags=0, ascii_only=False):
        self.flags = flags
        self.uniform_above = True
        # bytes patterns and re.ASCII: \\w \\d \\s are the ASCII classes
        self.ascii = ascii_only or bool(flags & re.ASCII)

    def charset(self, ranges):
        """ranges over the full Unicode range -> z3 regex over <= U+2FFFF, recording uniformity"""
        ranges = _normalise(ranges)
        high = [(max(lo, HIGH_LO), hi) for lo, hi in ranges if hi >= HIGH_LO]
        covered = sum(hi - lo + 1 for lo, hi in high)
        if covered not in (0, HIGH_HI - HIGH_LO + 1):
            self.uniform_above = False
        low = [(lo, min(hi, MAXU)) for lo, hi in ranges if lo <= MAXU]
        return union(_rng(a, b) for a, b in low)

    def _set_ranges(self, items):
        out = []
        for op, av in items:
            if op is sc.LITERAL:
                out.append((av, av))
            elif op is sc.RANGE:
                out.append(av)
            elif op is sc.CATEGORY:
                name = {sc.CATEGORY_WORD: 'word', sc.CATEGORY_DIGIT: 'digit', sc.CATEGORY_SPACE: 'space'}.get(av)
                neg = {sc.CATEGORY_NOT_WORD: 'word', sc.CATEGORY_NOT_DIGIT: 'digit',
                       sc.CATEGORY_NOT_SPACE: 'space'}.get(av)
                if name:
                    out += self._cat(name)
                elif neg:
                    out += _complement(self._cat(neg))
                else:
                    raise Unsupported(av)
            else:
                raise Unsupported(op)
        return out

    def _cat(self, name):
        if self.ascii:
            return {'word': [(48, 57), (65, 90), (95, 95), (97, 122)], 'digit': [(48, 57)],
                    'space': [(9, 13), (32, 32)]}[name]
        return _category_ranges(name)

    def item(self, op, av):
        if op is sc.LITERAL:
            if av > MAXU:
                self.uniform_above = False
                return EMPTY
            return z3.Re(chr(av))
        if op is sc.NOT_LITERAL:
            return self.charset(_complement([(av, av)]))
        if op is sc.ANY:
            return self.charset([(0, HIGH_HI)] if self.flags & re.DOTALL else _complement([(10, 10)]))
        if op is sc.IN:
            neg = bool(av) and av[0][0] is sc.NEGATE
            r = self._set_ranges(av[1:] if neg else av)
            return self.charset(_complement(r) if neg else r)
        if op is sc.BRANCH:
            return union(self.seq(x) for x in av[1])
        if op is sc.SUBPATTERN:
            return self.seq(av[3])
        if op in (sc.MAX_REPEAT, sc.MIN_REPEAT):
            lo, hi, sub = av
            s = self.seq(sub)
            if hi is sc.MAXREPEAT:
                if lo == 0:
                    return z3.Star(s)
                if lo == 1:
                    return z3.Plus(s)
                return z3.Concat(*([s] * lo), z3.Star(s))
            return z3.Loop(s, lo, hi)
        raise Unsupported('%s' % (op,))

    def seq(self, p):
        return cat(self.item(op, av) for op, av in p)

    # ---- whole-input semantics with \Z -------------------------------------------------------
    def seq_k(self, p, k):
        """language of whole inputs: p followed by continuation language k (\\Z = input ends here)"""
        p = list(p)
        if not _has_at(p):
            return z3.Concat(self.seq(p), k) if p else k
        op, av = p[0]
        rest = p[1:]
        if op is sc.AT:
            if av in (sc.AT_BEGINNING, sc.AT_BEGINNING_STRING):
                return self.seq_k(rest, k)      # (only used at the start of match() patterns)
            if av in (sc.AT_END_STRING, sc.AT_END):
                # (AT_END `$` also matches before a final \n; parso only uses \Z)
                if av is sc.AT_END:
                    # `$`: end of input, or just before a final newline
                    return z3.Intersect(self.seq_k(rest, k), z3.Union(EPS, z3.Re('\n')))
                return z3.Intersect(self.seq_k(rest, k), EPS)
            raise Unsupported(av)
        if op is sc.BRANCH:
            return union(self.seq_k(list(x) + rest, k) for x in av[1])
        if op is sc.SUBPATTERN:
            return self.seq_k(list(av[3]) + rest, k)
        if _has_at([p[0]]):
            raise Unsupported('anchor inside repeat')
        return z3.Concat(self.item(op, av), self.seq_k(rest, k))


def _has_at(p):
    for op, av in p:
        if op is sc.AT:
            return True
        if op is sc.BRANCH and any(_has_at(x) for x in av[1]):
            return True
        if op is sc.SUBPATTERN and _has_at(av[3]):
            return True
        if op in (sc.MAX_REPEAT, sc.MIN_REPEAT) and _has_at(av[2]):
            return True
        if op in (sc.ASSERT, sc.ASSERT_NOT):
            raise Unsupported('look-around')
    return False


def has_lookaround(p):
    for op, av in p:
        if op in (sc.ASSERT, sc.ASSERT_NOT, sc.GROUPREF, sc.GROUPREF_EXISTS):
            return True
        if op is sc.BRANCH and any(has_lookaround(x) for x in av[1]):
            return True
        if op is sc.SUBPATTERN and has_lookaround(av[3]):
            return True
        if op in (sc.MAX_REPEAT, sc.MIN_REPEAT) and has_lookaround(av[2]):
            return True
    return False


def parse(pattern, flags=0):
    if hasattr(pattern, 'pattern'):
        flags = pattern.flags
        pattern = pattern.pattern
    if isinstance(pattern, bytes):
        pattern = pattern.decode('latin-1')
    return sp.parse(pattern, flags)


def lang(pattern, flags=0, tr=None):
    """z3 regex for L(pattern) (fullmatch semantics)"""
    tr = tr or Translator(flags if not hasattr(pattern, 'flags') else pattern.flags)
    return tr.seq(parse(pattern, flags)), tr


# ---- solver helpers -------------------------------------------------------------------------------
def unescape(s):
    return re.sub(r'\\u\{([0-9a-fA-F]+)\}', lambda m: chr(int(m.group(1), 16)), s)


def check(constraints, timeout_ms=60000):
    s = z3.Solver()
    s.set('timeout', timeout_ms)
    s.add(*constraints)
    t0 = time.time()
    r = str(s.check())
    return r, (s.model() if r == 'sat' else None), time.time() - t0, s


W = z3.String('w')


def witness(model, var=W):
    return unescape(model.eval(var, model_completion=True).as_string())


def subset(a, b, minus=None, timeout_ms=60000):
    """A (minus K) subset of B ?  -> (verdict 'unsat'=holds / 'sat' / 'unknown', witness, seconds, smt2)"""
    cs = [z3.InRe(W, a), z3.Not(z3.InRe(W, b))]
    if minus is not None:
        cs.append(z3.Not(z3.InRe(W, minus)))
    r, m, dt, s = check(cs, timeout_ms)
    return r, (witness(m) if m is not None else None), dt, s


def nonempty(a, timeout_ms=20000):
    r, m, dt, _ = check([z3.InRe(W, a)], timeout_ms)
    return r, (witness(m) if m is not None else None), dt


def members(a, n=12, timeout_ms=5000):
    """up to n distinct members of language a (model enumeration with blocking)"""
    s = z3.Solver()
    s.set('timeout', timeout_ms)
    s.add(z3.InRe(W, a))
    out = []
    for i in range(n):
        # steer towards different lengths to get some variety
        s.push()
        s.add(z3.Length(W) >= i // 2)
        r = str(s.check())
        if r != 'sat':
            s.pop()
            r = str(s.check())
            if r != 'sat':
                break
            v = witness(s.model())
        else:
            v = witness(s.model())
            s.pop()
        out.append(v)
        s.add(W != z3.StringVal(v))
    return out


def validate_translation(pattern_obj, zre, n=10):
    """members / non-members produced by z3 are pushed through the real `re` object (fullmatch).
    -> list of disagreements (empty = translator agrees with re on the probes)"""
    bad = []
    for v in members(zre, n):
        if pattern_obj.fullmatch(v) is None:
            bad.append(('z3-member rejected by re', v))
    for v in members(z3.Complement(zre), n):
        if any(ord(c) > MAXU for c in v):
            continue
        if pattern_obj.fullmatch(v) is not None:
            bad.append(('z3-non-member accepted by re', v))
    return bad


def unbounded_repeats(p, path=''):
    """(description, body subpattern) of every repetition without upper bound inside parsed pattern p"""
    out = []
    i = 0
    for op, av in p:
        here = '%s/%d' % (path, i)
        if op in (sc.MAX_REPEAT, sc.MIN_REPEAT):
            lo, hi, sub = av
            if hi is sc.MAXREPEAT:
                out.append((here, list(sub)))
            out += unbounded_repeats(sub, here)
        elif op is sc.SUBPATTERN:
            out += unbounded_repeats(av[3], here)
        elif op is sc.BRANCH:
            for j, x in enumerate(av[1]):
                out += unbounded_repeats(x, '%s|%d' % (here, j))
        i += 1
    return out
