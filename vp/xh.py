"""X engine: run CrossHair conditions on harness functions, one process per condition, in parallel.

A *condition* = a harness function (module path + name) with PEP 316 `pre:` lines and `post: _`,
returning True when the property holds for its (symbolic) arguments.  The runner writes a tiny
wrapper module into scratch/ (so that variants - known-finding exclusion, broken twins - need no
edits of the harness), runs `crosshair check --report_all` on it, maps the verdict, and replays
counterexamples concretely with the plain interpreter of the test-suite.
"""
import importlib
import inspect
import os
import re
import subprocess
import sys
import time
from concurrent.futures import ThreadPoolExecutor

from .core import (ROOT, REPO, PY, PLAIN_PY, HOLDS, VIOLATED, KNOWN, INCONCLUSIVE, ERROR)

SCRATCH = os.path.join(ROOT, 'scratch')
PLUGIN = os.path.join(ROOT, 'vp', 'chplugin.py')


class Cond:
    def __init__(self, module, func, timeout=60, path_timeout=None, bound='', symbolic='', realised='',
                 twin=None, name=None, env=None, extra_pre=(), group=None, own=None):
        self.module, self.func = module, func
        self.timeout, self.path_timeout = timeout, path_timeout
        self.bound, self.symbolic, self.realised = bound, symbolic, realised
        self.twin = twin          # name of a built-in broken twin (must be refuted)
        self.env = env or {}
        # `name == <int>` preconditions become constants of the wrapper (no wasted precondition-failure paths)
        self.fixed = {}
        rest = []
        for e in extra_pre:
            m = re.match(r'^\s*(\w+)\s*==\s*(-?\d+)\s*$', e)
            if m:
                self.fixed[m.group(1)] = int(m.group(2))
            else:
                rest.append(e)
        self.extra_pre = tuple(rest)
        self.name = name or ('%s.%s' % (module.rsplit('.', 1)[-1], func)) + (('#twin:' + twin) if twin else '')
        self.group = group
        # own: clause tags this property is about; a shared condition checks more clauses than that, and a
        # counterexample of a foreign clause makes the runner re-decide the condition with the own clauses only
        self.own = own


def _wrapper_source(cond, exclude_known):
    mod = importlib.import_module(cond.module)
    fn = getattr(mod, cond.func)
    sig = inspect.signature(fn)
    doc = inspect.getdoc(fn) or ''
    # harness docstrings use `require:` (NOT `pre:`/`post:`): a live PEP 316 contract on the callee would make
    # CrossHair *assume* the callee's postcondition and silently drop the failing paths.
    if 'pre:' in doc or 'post:' in doc:
        raise ValueError('harness %s.%s carries a live contract; use require:' % (cond.module, cond.func))
    pres = ['pre: ' + l.strip()[len('require:'):].strip() for l in doc.splitlines()
            if l.strip().startswith('require:')]
    raises = []
    params = []
    consts = []
    for p in sig.parameters.values():
        ann = p.annotation
        if ann is inspect.Parameter.empty:
            raise ValueError('harness parameter without annotation: %s.%s(%s)' % (cond.module, cond.func, p.name))
        if p.name in cond.fixed:
            consts.append('%s = %r' % (p.name, cond.fixed[p.name]))
        else:
            params.append('%s: %s' % (p.name, _ann(ann)))
    unknown = set(cond.fixed) - set(sig.parameters)
    if unknown:
        raise ValueError('fixed names %r are no parameters of %s' % (unknown, cond.func))
    names = ', '.join(sig.parameters)
    lines = ['import typing', 'from typing import *', 'from %s import *' % cond.module,
             'import %s as _m' % cond.module, ''] + consts + ['',
             'def cond(%s) -> bool:' % ', '.join(params), '    """']
    for p in pres + ['pre: ' + x for x in cond.extra_pre]:
        lines.append('    ' + p)
    inline = getattr(mod, 'INLINE_KNOWN', False)     # harness skips known findings itself (VP_EXCLUDE_KNOWN=1)
    if exclude_known and not inline:
        lines.append('    pre: _m.%s_known(%s) is None' % (cond.func, names))
    for r in raises:
        lines.append('    ' + r)
    lines += ['    post: _', '    """', '    return _m.%s(%s)' % (cond.func, names), '']
    # reachability twin: same preconditions, `post: False` must be refuted (vacuity guard)
    lines += ['', 'def reach(%s) -> bool:' % ', '.join(params), '    """']
    for p in pres + ['pre: ' + x for x in cond.extra_pre]:
        lines.append('    ' + p)
    if exclude_known and not inline:
        lines.append('    pre: _m.%s_known(%s) is None' % (cond.func, names))
    lines += ['    post: False', '    """', '    return _m.%s(%s)' % (cond.func, names), '']
    return '\n'.join(lines)


def _ann(a):
    if isinstance(a, str):
        return a
    if getattr(a, '__module__', '') == 'typing' or hasattr(a, '__origin__'):
        return str(a).replace('typing.', '')
    return a.__name__


_LINE = re.compile(r'^(?P<file>[^:]+):(?P<line>\d+): (?P<kind>error|info|warning): (?P<msg>.*)$')
_CALL = re.compile(r'when calling (?:cond|reach)\((?P<args>.*?)\)(?: with crosshair\.patch_to_return\(.*?\)\))?(?: \(which (?:returns|raises) [^()]*(?:\([^()]*\))?[^()]*\))?\s*$', re.S)


_VP_HASH = None


def _memo_key(cond, src, exclude_known):
    """results are reused only for the identical tree, identical framework sources and identical condition"""
    global _VP_HASH
    import hashlib
    from .core import repo_digest
    if _VP_HASH is None:
        h = hashlib.sha256()
        for d, dirs, files in sorted(os.walk(os.path.join(ROOT, 'vp'))):
            dirs.sort()
            for f in sorted(files):
                if f.endswith('.py'):
                    with open(os.path.join(d, f), 'rb') as fh:
                        h.update(fh.read())
        with open(os.path.join(ROOT, 'known_findings.json'), 'rb') as fh:
            h.update(fh.read())
        _VP_HASH = h.hexdigest() + repo_digest()
    h = hashlib.sha256()
    h.update(repr((_VP_HASH, cond.name, src, cond.timeout, cond.path_timeout, sorted(cond.env.items()),
                   cond.twin, exclude_known, sorted(cond.fixed.items()))).encode())
    return h.hexdigest()[:32]


def run_one(cond, exclude_known=False):
    import json
    os.makedirs(os.path.join(SCRATCH, 'memo'), exist_ok=True)
    src = _wrapper_source(cond, exclude_known)
    memo = os.path.join(SCRATCH, 'memo', _memo_key(cond, src, exclude_known) + '.json')
    if os.path.exists(memo) and not os.environ.get('VP_NO_MEMO'):
        try:
            with open(memo) as f:
                res = json.load(f)
            res['cond'] = cond
            res['memo'] = True
            return res
        except Exception:
            pass
    res = _run_one(cond, exclude_known)
    if res['verdict'] in (HOLDS, VIOLATED, INCONCLUSIVE):
        try:
            with open(memo + '.tmp', 'w') as f:
                json.dump({k: v for k, v in res.items() if k != 'cond'}, f)
            os.replace(memo + '.tmp', memo)
        except Exception:
            pass
    return res


def _run_one(cond, exclude_known=False):
    os.makedirs(SCRATCH, exist_ok=True)
    import hashlib
    # distinct conditions must never share a wrapper file (names differing only in punctuation sanitise equally)
    safe = re.sub(r'[^A-Za-z0-9_]', '_', cond.name)[:90] + '_' + hashlib.sha1(
        repr((cond.name, cond.twin, sorted(cond.env.items()), sorted(cond.fixed.items()), cond.extra_pre)).encode()).hexdigest()[:10] + \
        ('_xk' if exclude_known else '')
    path = os.path.join(SCRATCH, 'c_%s.py' % safe)
    with open(path, 'w') as f:
        f.write(_wrapper_source(cond, exclude_known))
    l_cond, l_reach = _def_line(path, 'cond'), _def_line(path, 'reach')
    cmd = [PY, '-m', 'crosshair', 'check', path,
           '--report_all', '--analysis_kind', 'PEP316', '--per_condition_timeout', str(cond.timeout)]
    if cond.path_timeout:
        cmd += ['--per_path_timeout', str(cond.path_timeout)]
    cmd += ['--extra_plugin', PLUGIN]
    env = dict(os.environ, PYTHONPATH=ROOT + os.pathsep + REPO, PYTHONHASHSEED='0',
               PYTHONDONTWRITEBYTECODE='1', **cond.env)
    if exclude_known:
        env['VP_EXCLUDE_KNOWN'] = '1'
    else:
        env.pop('VP_EXCLUDE_KNOWN', None)
    if cond.twin:
        env['VP_TWIN'] = cond.twin
    else:
        env.pop('VP_TWIN', None)
    t0 = time.time()
    try:
        p = subprocess.run(cmd, env=env, capture_output=True, text=True, timeout=cond.timeout * 2.5 + 90,
                           cwd=SCRATCH)
        out, err, rc = p.stdout, p.stderr, p.returncode
    except subprocess.TimeoutExpired as e:
        out, err, rc = (e.stdout or b'').decode('utf8', 'replace') if isinstance(e.stdout, bytes) else (e.stdout or ''), 'outer timeout', -9
    dt = time.time() - t0
    res = {'cond': cond, 'seconds': dt, 'raw': (out + '\n' + err)[-3000:], 'exclude_known': exclude_known}
    verdict, msg, args = INCONCLUSIVE, '', None
    reached = False
    for line in out.splitlines():
        m = _LINE.match(line)
        if not m:
            continue
        kind, text = m.group('kind'), m.group('msg')
        if int(m.group('line')) >= l_reach:
            if kind == 'error' and 'when calling reach(' in text:
                reached = True
            continue
        if kind == 'error' and text.startswith(('NotDeterministic', 'CrossHairInternal')):
            verdict, msg = INCONCLUSIVE, 'engine failure: ' + text[:200]
            break
        if kind == 'error':
            verdict, msg = VIOLATED, text
            mc = _CALL.search(text)
            args = mc.group('args') if mc else None
            break
        if 'Confirmed over all paths' in text:
            verdict, msg = HOLDS, text
        elif 'Not confirmed' in text or 'Unable to meet precondition' in text:
            verdict, msg = INCONCLUSIVE, text
    if verdict == HOLDS and not reached:
        verdict, msg = INCONCLUSIVE, 'vacuous: reachability twin (post: False) was not refuted'
    if verdict == INCONCLUSIVE and not msg:
        msg = 'no verdict line (rc=%s): %s' % (rc, (err or out)[-400:].replace('\n', ' | '))
        if rc not in (0, 1, -9):
            verdict = ERROR
    res.update(verdict=verdict, msg=msg, args=args)
    return res


def _def_line(path, name):
    with open(path) as f:
        for i, l in enumerate(f, 1):
            if l.startswith('def %s(' % name):
                return i
    raise ValueError(path)


def replay_source(cond, args):
    if cond.fixed:
        # the counterexample lists only the symbolic parameters: put the constants back in signature order
        mod = importlib.import_module(cond.module)
        order = list(inspect.signature(getattr(mod, cond.func)).parameters)
        sym = [n for n in order if n not in cond.fixed]
        parts = _split_args(args)
        vals = {}
        for i, part in enumerate(parts):
            mm = re.match(r'^\s*(\w+)\s*=(?!=)(.*)$', part, re.S)
            if mm and mm.group(1) in sym:
                vals[mm.group(1)] = mm.group(2).strip()
            elif i < len(sym):
                vals[sym[i]] = part.strip()
        for n, v in cond.fixed.items():
            vals[n] = repr(v)
        args = ', '.join(vals[n] for n in order)
    return ('# replay of a CrossHair counterexample on the plain interpreter; exit 1 = reproduces on /repo\n'
            'import sys, traceback\nsys.path.insert(0, %r)\n'
            'import %s as _m\n'
            'def _run():\n'
            '    return _m.%s(%s)\n'
            'k = getattr(_m, %r, None)\n'
            'if k is not None:\n'
            '    try:\n'
            '        print("KNOWN=%%s" %% (k(%s),))\n'
            '    except BaseException:\n'
            '        print("KNOWN=None")\n'
            'try:\n'
            '    r = _run()\n'
            'except BaseException:\n'
            '    traceback.print_exc()\n'
            '    print("REPRODUCED (exception)")\n'
            '    sys.exit(1)\n'
            'print("harness returned", r, "| why:", getattr(_m, "WHY", None))\n'
            'if r is True:\n'
            '    print("not reproduced")\n'
            '    sys.exit(0)\n'
            'print("REPRODUCED")\n'
            'sys.exit(1)\n' % (ROOT, cond.module, cond.func, args, cond.func + '_known', args))


def _split_args(args):
    """split a printed argument list at top-level commas"""
    out, depth, cur, q = [], 0, '', None
    i = 0
    while i < len(args):
        ch = args[i]
        if q:
            cur += ch
            if ch == '\\':
                cur += args[i + 1]
                i += 1
            elif ch == q:
                q = None
        elif ch in '\'"':
            q = ch
            cur += ch
        elif ch in '([{':
            depth += 1
            cur += ch
        elif ch in ')]}':
            depth -= 1
            cur += ch
        elif ch == ',' and depth == 0:
            out.append(cur)
            cur = ''
        else:
            cur += ch
        i += 1
    if cur.strip():
        out.append(cur)
    return out


def run_replay(path, env_extra=None):
    env = dict(os.environ, PYTHONPATH=REPO + os.pathsep + ROOT, PYTHONDONTWRITEBYTECODE='1')
    env.pop('VP_TWIN', None)
    env.update(env_extra or {})
    p = subprocess.run([PLAIN_PY, path], env=env, capture_output=True, text=True, timeout=300)
    return p.returncode, p.stdout, p.stderr


def run_conditions(ctx, conds, workers=16):
    """Runs all conditions, handles replay / known findings / twins, records obligations in ctx."""
    if getattr(ctx, 'only', None):
        conds = [c for c in conds if ctx.only in c.name]
    for m in sorted({c.module for c in conds}):
        importlib.import_module(m)        # in the main thread (imports from worker threads can deadlock)
    with ThreadPoolExecutor(max_workers=workers) as ex:
        futs = [(c, ex.submit(_process, ctx, c)) for c in conds]
        for c, f in futs:
            f.result()


def _process(ctx, cond):
    try:
        return _process0(ctx, cond)
    except Exception:
        import traceback
        ctx.add(cond.name, 'crosshair', ERROR, 0.0, detail='runner exception')
        ctx.error(cond.name, 'exception in the runner: ' + traceback.format_exc()[-1200:])


def _process0(ctx, cond):
    res = run_one(cond)
    rounds = 0
    while True:
        rounds += 1
        v = res['verdict']
        common = dict(bound=cond.bound, symbolic=cond.symbolic, realised=cond.realised, kind='crosshair-condition', memo=bool(res.get('memo')))
        if cond.twin:
            # a broken twin must be refuted with a counterexample
            if v == VIOLATED:
                ctx.add(cond.name, 'crosshair', HOLDS, res['seconds'], nonvacuous=True,
                        detail='broken twin refuted: ' + res['msg'][:200], **dict(common, kind='broken-twin'))
            else:
                ctx.add(cond.name, 'crosshair', INCONCLUSIVE, res['seconds'],
                        detail='broken twin NOT refuted (%s): %s' % (v, res['msg'][:200]), **common)
            return
        if v == HOLDS:
            ctx.add(cond.name + ('/minus-known' if res['exclude_known'] else ''), 'crosshair', HOLDS,
                    res['seconds'], nonvacuous=True, detail=res['msg'], **common)
            return
        if v in (INCONCLUSIVE, ERROR):
            ctx.add(cond.name + ('/minus-known' if res['exclude_known'] else ''), 'crosshair', INCONCLUSIVE,
                    res['seconds'], detail=res['msg'][:300], **common)
            return
        # counterexample: replay concretely
        if res['args'] is None:
            ctx.add(cond.name, 'crosshair', ERROR, res['seconds'], detail=res['msg'][:300], **common)
            ctx.error(cond.name, 'cannot parse counterexample: ' + res['msg'][:500])
            return
        path = ctx.write_replay(cond.name + ('_k' if res['exclude_known'] else ''), replay_source(cond, res['args']))
        rc, out, err = run_replay(path, cond.env)
        if rc != 1 or 'REPRODUCED' not in out:
            ctx.add(cond.name, 'crosshair', ERROR, res['seconds'], detail=res['msg'][:300], **common)
            ctx.error(cond.name, 'counterexample does not replay on the plain interpreter: %s | %s | %s' % (
                res['msg'][:300], out[-300:], err[-300:]))
            return
        if cond.own and not res.get('narrowed'):
            mw = re.search(r'why: (c\d+t?):', out)
            if mw and mw.group(1) not in cond.own:
                fixed0 = cond.fixed
                ctx.notes.append('%s: counterexample belongs to clause %s (another property); re-deciding with %s only'
                                 % (cond.name, mw.group(1), ','.join(cond.own)))
                cond = Cond(cond.module, cond.func, cond.timeout, cond.path_timeout, cond.bound, cond.symbolic,
                            cond.realised, None, cond.name + '/own', dict(cond.env, VP_CLAUSES=','.join(cond.own)),
                            cond.extra_pre, cond.group, None)
                cond.fixed = dict(fixed0)
                res = run_one(cond)
                res['narrowed'] = True
                continue
        mk = re.search(r'KNOWN=(\S+)', out)
        key = mk.group(1) if mk and mk.group(1) != 'None' else None
        if key and ctx.known_active(key) and rounds <= 2:
            ctx.hit_known(key, 'cond(%s)' % res['args'][:200])
            ctx.add(cond.name, 'crosshair', KNOWN, res['seconds'], detail=res['msg'][:300], **common)
            res = run_one(cond, exclude_known=True)
            continue
        ctx.add(cond.name, 'crosshair', VIOLATED, res['seconds'], detail=res['msg'][:300], **common)
        ctx.violation(cond.name, path, res['msg'] + ' || ' + out.strip()[-400:])
        return
