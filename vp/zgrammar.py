"""Z-grammar: the generated parser tables against an independent reading of the grammar text.

Specification side: `read_rules` + `Rhs` (a small recursive-descent reader of the EBNF dialect)
produce, per rule, a z3 regular expression over an alphabet with one character per grammar
symbol.  It shares no code with parso.pgen2.

Implementation side: the live objects produced by parso.pgen2.generator of the imported tree.
"""
import re
import time

import z3

from .ebnf import read_rules, SymTab, Rhs, to_pyre  # noqa: F401 (re-exported)


def to_z3(ast, sym):
    k = ast[0]
    if k == 'sym':
        return z3.Re(sym(ast[1]))
    if k == 'alt':
        return z3.Union(*[to_z3(x, sym) for x in ast[1]])
    if k == 'cat':
        return z3.Concat(*[to_z3(x, sym) for x in ast[1]])
    if k == 'opt':
        return z3.Option(to_z3(ast[1], sym))
    if k == 'star':
        return z3.Star(to_z3(ast[1], sym))
    if k == 'plus':
        return z3.Plus(to_z3(ast[1], sym))
    raise ValueError(k)


STR = z3.StringSort()
EMPTY = z3.Empty(z3.ReSort(STR))
FULL = z3.Full(z3.ReSort(STR))


def dfa_to_re(dfas, sym):
    """Generalised-NFA state elimination on the implementation's DFA of one rule."""
    n = len(dfas)
    idx = {id(s): i for i, s in enumerate(dfas)}
    eps = z3.Re("")
    init, fin = n, n + 1
    R = {}

    def add(a, b, r):
        R[(a, b)] = z3.Union(R[(a, b)], r) if (a, b) in R else r

    add(init, 0, eps)
    for i, s in enumerate(dfas):
        if s.is_final:
            add(i, fin, eps)
        for label, nxt in s.arcs.items():
            if id(nxt) not in idx:
                raise ValueError('arc to a state outside the rule')
            add(i, idx[id(nxt)], z3.Re(sym(label)))
    for k in range(n):
        loop = R.pop((k, k), None)
        ins = [(a, r) for (a, b), r in R.items() if b == k]
        outs = [(b, r) for (a, b), r in R.items() if a == k]
        for a, _ in ins:
            R.pop((a, k))
        for b, _ in outs:
            R.pop((k, b))
        for a, ra in ins:
            for b, rb in outs:
                mid = [ra] + ([z3.Star(loop)] if loop is not None else []) + [rb]
                add(a, b, z3.Concat(*mid))
    return R.get((init, fin), EMPTY)


def solve(constraints, timeout_ms=60000):
    s = z3.Solver()
    s.set('timeout', timeout_ms)
    s.add(*constraints)
    t0 = time.time()
    r = str(s.check())
    return r, (s.model() if r == 'sat' else None), time.time() - t0


def language_equal(spec, impl, timeout_ms=60000):
    """-> (verdict, witness string or None, seconds); verdict in unsat/sat/unknown."""
    w = z3.String('w')
    r, m, dt = solve([z3.InRe(w, spec) != z3.InRe(w, impl)], timeout_ms)
    wit = None
    if r == 'sat':
        wit = m.eval(w, model_completion=True).as_string()
        wit = _unescape(wit)
    return r, wit, dt


def _unescape(s):
    # z3 prints non-ASCII as \u{xxxx}
    return re.sub(r'\\u\{([0-9a-fA-F]+)\}', lambda m: chr(int(m.group(1), 16)), s)


def first_symbols(spec, candidates, sym, timeout_ms=20000):
    """Symbols X (of `candidates`) such that some sentence of `spec` begins with X; decided by
    one z3 query per candidate.  -> (set, nullable, seconds, unknowns)"""
    w = z3.String('w')
    out, secs, unknown = set(), 0.0, []
    for x in candidates:
        r, _, dt = solve([z3.InRe(w, z3.Intersect(spec, z3.Concat(z3.Re(sym(x)), FULL)))], timeout_ms)
        secs += dt
        if r == 'sat':
            out.add(x)
        elif r != 'unsat':
            unknown.append(x)
    r, _, dt = solve([z3.InRe(z3.StringVal(""), spec)], timeout_ms)
    secs += dt
    if r not in ('sat', 'unsat'):
        unknown.append('<nullable>')
    return out, r == 'sat', secs, unknown
