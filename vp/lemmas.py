"""Helper to state, discharge, guard and replay z3 regular-language lemmas."""
import os
import subprocess

import z3

from . import rx
from .core import HOLDS, VIOLATED, KNOWN, INCONCLUSIVE, ERROR, PLAIN_PY, REPO, ROOT


def replay_source(fn, args):
    return ('# replay of a regex-lemma counterexample on the real code; exit 1 = reproduces on /repo\n'
            'import sys\nsys.path.insert(0, %r)\nfrom vp import concrete\nconcrete.main(%r, *%r)\n' % (ROOT, fn, tuple(args)))


def run_replay(path):
    env = dict(os.environ, PYTHONPATH=REPO + os.pathsep + ROOT, PYTHONDONTWRITEBYTECODE='1')
    p = subprocess.run([PLAIN_PY, path], env=env, capture_output=True, text=True, timeout=120)
    return p.returncode == 1 and 'REPRODUCED' in p.stdout, p.stdout[-400:] + p.stderr[-300:]


def subset(ctx, name, a, b, concrete=None, concrete_args=(), known=None, broken_b=None, bound='',
           uniform=True, timeout_ms=60000, need_replay=True):
    """Lemma  A subset B  (A minus K subset B when a known finding K=(key, language) applies).
    Vacuity guards: A non-empty (sat) and, if given, the broken twin  A subset broken_b  must be refuted."""
    bound = bound or ('strings of unbounded length over code points <= U+2FFFF' +
                      ('; extends to all of Unicode by plane uniformity of every character set' if uniform
                       else ' (NOT uniform above U+2FFFF: bounded there)'))
    r0, w0, dt0 = rx.nonempty(a)
    if r0 != 'sat':
        ctx.add(name, 'z3', INCONCLUSIVE, dt0, detail='vacuity guard: left-hand language empty/unknown (%s)' % r0, bound=bound)
        return False
    twin_ok = True
    dtt = 0.0
    if broken_b is not None:
        rt, wt, dtt, _ = rx.subset(a, broken_b, timeout_ms=timeout_ms)
        twin_ok = rt == 'sat'
    r, w, dt, solver = rx.subset(a, b, timeout_ms=timeout_ms)
    total = dt0 + dtt + dt
    if r == 'sat' and known is not None:
        key, klang = known
        # is the witness inside K ?  then re-ask A \ K subset B
        rk, wk, dtk, _ = rx.subset(a, b, minus=klang, timeout_ms=timeout_ms)
        total += dtk
        inside = rx.check([z3.InRe(z3.StringVal(w), klang)])[0] == 'sat'
        if ctx.known_active(key) and inside:
            ok, out = (True, '')
            if concrete:
                path = ctx.write_replay(name + '_known', replay_source(concrete, (w,) + tuple(concrete_args)))
                ok, out = run_replay(path)
            if ok:
                ctx.hit_known(key, repr(w))
                ctx.add(name, 'z3', KNOWN, dt, detail='counterexample %r is the known finding' % w, bound=bound)
                name = name + '/minus-known'
                r, w, dt = rk, wk, dtk
            else:
                ctx.add(name, 'z3', ERROR, dt, detail='known-finding witness %r does not replay' % w)
                ctx.error(name, 'known-finding witness %r does not replay: %s' % (w, out))
                return False
    if r == 'unsat':
        if not twin_ok:
            ctx.add(name, 'z3', INCONCLUSIVE, total, detail='broken twin was not refuted (lemma may be vacuous)', bound=bound)
            return False
        ctx.add(name, 'z3', HOLDS, total, nonvacuous=True, bound=bound, kind='z3-regex-lemma',
                detail='unsat; lhs witness %r%s' % (w0[:30], '; broken twin refuted' if broken_b is not None else ''))
        ctx.sample({'lemma': name, 'lhs_member': w0[:40]})
        return True
    if r == 'sat':
        if concrete:
            path = ctx.write_replay(name, replay_source(concrete, (w,) + tuple(concrete_args)))
            ok, out = run_replay(path)
            if ok:
                ctx.add(name, 'z3', VIOLATED, total, detail='counterexample %r' % w, bound=bound)
                ctx.violation(name, path, 'counterexample %r | %s' % (w, out.strip()[-300:]))
            elif need_replay:
                ctx.add(name, 'z3', ERROR, total, detail='counterexample %r does not replay' % w)
                ctx.error(name, 'counterexample %r does not replay on the real code: %s' % (w, out))
            else:
                ctx.add(name, 'z3', INCONCLUSIVE, total, bound=bound,
                        detail='supporting lemma refuted by %r but the code does not misbehave on it' % w)
        else:
            ctx.add(name, 'z3', INCONCLUSIVE, total, detail='refuted by %r (supporting lemma without concrete oracle)' % w, bound=bound)
        return False
    ctx.add(name, 'z3', INCONCLUSIVE, total, detail='z3 %s' % r, bound=bound)
    return False


def validate(ctx, name, pattern_obj, zre, n=8):
    bad = rx.validate_translation(pattern_obj, zre, n)
    if bad:
        ctx.error('translator:' + name, 'sre->z3 translation disagrees with re: %r' % (bad[:3],))
    return not bad
