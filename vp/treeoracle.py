"""Tree-level oracles (plain Python, trusted base, validated on the repository's test corpus).
Each check_* returns None when the clause holds, else a string saying what is wrong."""
import os
import re

from .oracle import walk, BOM
from . import ebnf


def leaves(node):
    out = []
    stack = [node]
    while stack:
        n = stack.pop()
        ch = getattr(n, 'children', None)
        if ch is None:
            out.append(n)
        else:
            stack.extend(reversed(ch))
    return out


def nodes(node):
    out = []
    stack = [node]
    while stack:
        n = stack.pop()
        out.append(n)
        ch = getattr(n, 'children', None)
        if ch is not None:
            stack.extend(reversed(ch))
    return out


# ---- C01 ---------------------------------------------------------------------------------------
def check_roundtrip(module, text):
    if module.get_code() != text:
        return 'get_code() differs from the input: %r' % module.get_code()[:80]
    ls = leaves(module)
    if ''.join(l.prefix + l.value for l in ls) != text:
        return 'prefix+value of the leaves do not tile the input'
    # every subtree: code == contiguous slice between end of previous leaf and node end
    off = {}
    o = 0
    for l in ls:
        off[id(l)] = (o, o + len(l.prefix) + len(l.value))
        o += len(l.prefix) + len(l.value)
    for n in nodes(module):
        ch = getattr(n, 'children', None)
        if ch is None:
            a, b = off[id(n)]
        else:
            if not ch:
                continue
            a, b = off[id(n.get_first_leaf())][0], off[id(n.get_last_leaf())][1]
        if n.get_code() != text[a:b]:
            return 'code of %s node is %r, its span of the input is %r' % (n.type, n.get_code()[:60], text[a:b][:60])
    return None


# ---- C02 ---------------------------------------------------------------------------------------
def check_wellformed(module):
    if module.type != 'file_input' or module.parent is not None:
        return 'root is %s with parent %r' % (module.type, module.parent)
    if not module.children or module.children[-1].type != 'endmarker':
        return 'last child of the module is not the end marker'
    for n in nodes(module):
        ch = getattr(n, 'children', None)
        if ch is not None:
            if len(ch) == 0:
                return 'interior node %s without children' % n.type
            for c in ch:
                if c.parent is not n:
                    return 'child %r of %s has parent %r' % (c, n.type, c.parent)
        else:
            if not isinstance(n.value, str) or not isinstance(n.prefix, str):
                return 'leaf with non-str value/prefix'
    return None


# ---- C03 ---------------------------------------------------------------------------------------
ZERO_WIDTH = ('INDENT', 'DEDENT', 'ERROR_DEDENT')


def check_positions(module, text):
    pos = (1, 0)
    first = True
    prev_end = (1, 0)
    ls = leaves(module)
    for l in ls:
        zero = l.type == 'error_leaf' and l.token_type in ZERO_WIDTH
        pstart = l.get_start_pos_of_prefix()
        if zero:
            # zero-width indentation error leaf: no text; sits at the start of the next real leaf
            if l.value != '' or l.prefix != '':
                return 'indentation error leaf carries text'
            if l.end_pos != l.start_pos:
                return 'zero-width leaf with end %r != start %r' % (l.end_pos, l.start_pos)
            pend = [l]
            continue
        if pstart != pos:
            return 'prefix of %r reported to start at %r, previous leaf ends at %r' % (l.value, pstart, pos)
        pos = walk(pos, l.prefix, bom_allowed=first)
        if l.start_pos != pos:
            return 'leaf %r at %r, true position %r' % (l.value, l.start_pos, pos)
        pos = walk(pos, l.value)
        if l.end_pos != pos:
            return 'leaf %r ends at %r, true end %r' % (l.value, l.end_pos, pos)
        first = False
    # zero-width leaves: at the start of the following real leaf
    nxt = None
    for l in reversed(ls):
        if l.type == 'error_leaf' and l.token_type in ZERO_WIDTH:
            if nxt is not None and l.start_pos != nxt.start_pos:
                return '%s error leaf at %r, next token starts at %r' % (l.token_type, l.start_pos, nxt.start_pos)
        else:
            nxt = l
    for n in nodes(module):
        if getattr(n, 'children', None):
            if n.start_pos != n.get_first_leaf().start_pos or n.end_pos != n.get_last_leaf().end_pos:
                return 'node %s positions differ from its first/last leaf' % n.type
    if module.end_pos != pos:
        return 'module ends at %r, input ends at %r' % (module.end_pos, pos)
    # (pos was obtained by counting exactly the Python line breaks of the text: line = breaks + 1)
    return None


# ---- C05 ---------------------------------------------------------------------------------------
class GrammarSpec:
    """independent reading of the grammar text of one version, for concrete conformance checks"""
    _cache = {}

    @classmethod
    def get(cls, version):
        if version not in cls._cache:
            cls._cache[version] = cls(version)
        return cls._cache[version]

    def __init__(self, version):
        import parso
        path = os.path.join(os.path.dirname(parso.__file__), 'python', 'grammar%d%d.txt' % tuple(version))
        with open(path) as f:
            text = f.read()
        self.order, rhs = ebnf.read_rules(text)
        self.nts = set(self.order)
        self.ast = {n: ebnf.Rhs(rhs[n]).parse() for n in self.order}
        self.strings = set()
        for n in self.order:
            for s in _syms(self.ast[n]):
                if s[0] in '"\'':
                    self.strings.add(s[1:-1])
        # unit derivations: A => B when the one-symbol sentence B is in L(rhs_A)
        unit = {n: set() for n in self.order}
        for n in self.order:
            for s in set(_syms(self.ast[n])):
                if 1 in match(self.ast[n], [{s}], 0, lambda x: x):
                    unit[n].add(s)
        # stands[x] = all nonterminals A with A =>* x by unit steps (plus x itself)
        self.stands = {}
        syms = set(self.order) | {s for n in self.order for s in _syms(self.ast[n])}
        for x in syms:
            acc = {x}
            changed = True
            while changed:
                changed = False
                for a in self.order:
                    if a not in acc and unit[a] & acc:
                        acc.add(a)
                        changed = True
            self.stands[x] = acc
        # inlined variants for the param conventions
        self.inline = {}
        for host, inner in (('parameters', 'typedargslist'), ('lambdef', 'varargslist'), ('lambdef_nocond', 'varargslist')):
            if host in self.ast and inner in self.ast:
                self.inline[host] = _subst(self.ast[host], inner, ('alt', [('sym', inner), self.ast[inner]]))


def _syms(a):
    if a[0] == 'sym':
        yield a[1]
    elif a[0] in ('alt', 'cat'):
        for x in a[1]:
            yield from _syms(x)
    else:
        yield from _syms(a[1])


def _subst(a, name, repl):
    if a[0] == 'sym':
        return repl if a[1] == name else a
    if a[0] in ('alt', 'cat'):
        return (a[0], [_subst(x, name, repl) for x in a[1]])
    return (a[0], _subst(a[1], name, repl))


def match(ast, seq, i, canon):
    """set of positions j such that seq[i:j] (a list of symbol SETS) matches ast"""
    k = ast[0]
    if k == 'sym':
        return {i + 1} if i < len(seq) and canon(ast[1]) in seq[i] else set()
    if k == 'alt':
        out = set()
        for x in ast[1]:
            out |= match(x, seq, i, canon)
        return out
    if k == 'cat':
        cur = {i}
        for x in ast[1]:
            nxt = set()
            for p in cur:
                nxt |= match(x, seq, p, canon)
            cur = nxt
            if not cur:
                break
        return cur
    if k == 'opt':
        return {i} | match(ast[1], seq, i, canon)
    # star / plus
    first = match(ast[1], seq, i, canon)
    acc = set(first)
    frontier = set(first)
    while frontier:
        nf = set()
        for p in frontier:
            for q in match(ast[1], seq, p, canon):
                if q not in acc:
                    acc.add(q)
                    nf.add(q)
        frontier = nf
    if k == 'star':
        acc.add(i)
    return acc


_LEAF_TOKEN = {'name': 'NAME', 'number': 'NUMBER', 'string': 'STRING', 'newline': 'NEWLINE', 'endmarker': 'ENDMARKER',
               'fstring_start': 'FSTRING_START', 'fstring_string': 'FSTRING_STRING', 'fstring_end': 'FSTRING_END'}


def _symbols_of(child, spec):
    """grammar symbols (as written in the grammar text) a child can stand for"""
    if hasattr(child, 'children'):
        base = {child.type}
        if child.type == 'lambdef':
            base.add('lambdef_nocond')
    else:
        base = set()
        t = _LEAF_TOKEN.get(child.type)
        if t:
            base.add(t)
        if child.type in ('keyword', 'operator'):
            base.add("'%s'" % child.value)
            base.add('"%s"' % child.value)
    out = set()
    for b in base:
        out |= spec.stands.get(b, {b})
    return out


def check_conformance(module, version):
    spec = GrammarSpec.get(tuple(version))
    ident = lambda x: x
    for n in nodes(module):
        ch = getattr(n, 'children', None)
        if ch is None:
            continue
        if n.type == 'error_node':
            continue      # where it may stand is checked at its parent
        has_error = False
        kids = []
        for c in ch:
            if c.type in ('error_node', 'error_leaf'):
                if n.type not in ('file_input', 'suite'):
                    # a one-statement block collapses into its parent: an error node may stand exactly where
                    # the rule expects a block (`suite`), nowhere else
                    if c.type == 'error_node':
                        kids.append(c)
                        continue
                    return '%s inside a %s node (%r)' % (c.type, n.type, n.get_code()[:50])
                has_error = True
            else:
                kids.append(c)
        if n.type == 'param':
            # grouping convention (sentence checked through its parent): a param node holds one parameter -
            # optional stars, a name (possibly annotated), optional default, optional trailing comma
            names = [c for c in kids if c.type in ('name', 'tfpdef')]
            if len([c for c in kids if c.type == 'name' or c.type == 'tfpdef']) < 1 or \
                    any(c.type == 'operator' and c.value == '/' for c in kids):
                return 'param node %r does not hold a parameter' % n.get_code()
            continue
        rule = n.type
        if rule not in spec.ast:
            return 'node type %r is no rule of grammar %r' % (rule, version)
        ast = spec.ast[rule]
        # conventions
        if rule in ('parameters', 'lambdef') or (rule == 'lambdef' and 'lambdef_nocond' in spec.ast):
            flat = []
            for c in kids:
                if c.type == 'param':
                    flat.extend(c.children)
                else:
                    flat.append(c)
            kids = flat
            ast = spec.inline.get(rule, ast)
        seq = [({'suite'} if c.type == 'error_node' else _symbols_of(c, spec)) for c in kids]
        # the final newline of the last statement may be absent at the end of the file: a child that is a
        # small_stmt directly followed by the end marker also stands for a simple_stmt
        for i, c in enumerate(kids):
            if 'small_stmt' in seq[i] and 'simple_stmt' not in seq[i]:
                nl = c.get_next_leaf()
                while nl is not None and nl.type == 'error_leaf' and nl.token_type in ZERO_WIDTH:
                    nl = nl.get_next_leaf()
                first = c.get_first_leaf()
                if nl is not None and (nl.type == 'endmarker' or (
                        nl.start_pos[0] > c.end_pos[0] and nl.start_pos[1] < first.start_pos[1])):
                    # (or before a dedent: the parser applies the same tolerance when a DEDENT token follows)
                    seq[i] = seq[i] | spec.stands['simple_stmt']
        if rule == 'suite':
            # virtual INDENT / DEDENT
            if kids and kids[0].type == 'newline':
                seq = [seq[0], {'INDENT'}] + seq[1:] + [{'DEDENT'}]
            if has_error:
                # statements were discarded into error nodes: at least the frame must be right
                ast = ('cat', [('sym', 'NEWLINE'), ('sym', 'INDENT'), ('star', ('sym', 'stmt')), ('sym', 'DEDENT')])
        if rule == 'simple_stmt' and (not kids or kids[-1].type != 'newline'):
            nl = n.get_next_leaf()
            while nl is not None and nl.type == 'error_leaf' and nl.token_type in ZERO_WIDTH:
                nl = nl.get_next_leaf()
            if nl is not None and nl.type == 'endmarker':
                seq = seq + [{'NEWLINE'}]     # the final newline may be absent at the end of the file
        ok = len(seq) in match(ast, seq, 0, ident)
        if not ok and rule == 'lambdef' and 'lambdef_nocond' in spec.ast:
            ok = len(seq) in match(spec.inline.get('lambdef_nocond', spec.ast['lambdef_nocond']), seq, 0, ident)
        if not ok:
            return 'children of %s node %r are no sentence of its rule: %s' % (
                rule, n.get_code()[:50], [getattr(c, 'value', None) or c.type for c in kids][:12])
    # error leaves: only as children of file_input / suite / error_node (checked above for nodes' children)
    return None


# ---- C07 ---------------------------------------------------------------------------------------
def first_error(module):
    """the token the strict parser stops at: the earliest (in source order) among all error leaves and all
    leaves that follow an error node"""
    best = None
    for n in nodes(module):
        cand = None
        if n.type == 'error_leaf':
            cand = n
        elif n.type == 'error_node':
            cand = n.get_next_leaf()
        if cand is not None and (best is None or cand.start_pos < best.start_pos):
            best = cand
    return best


def check_strict_agrees(grammar, module, text):
    from parso.parser import ParserSyntaxError
    err = first_error(module)
    try:
        m2 = grammar.parse(text, error_recovery=False)
    except ParserSyntaxError as e:
        if err is None:
            return 'strict parsing raised at %r %r but the recovered tree has no error node/leaf' % (
                e.error_leaf.value, e.error_leaf.start_pos)
        got = (e.error_leaf.value, e.error_leaf.start_pos)
        want = (err.value, err.start_pos)
        tt = e.error_leaf.token_type
        tt = getattr(tt, 'name', tt)
        if tt in ZERO_WIDTH and got[1] == want[1]:
            return None      # a zero-width INDENT/DEDENT token sits at the start of the token that follows it
        if got != want:
            return 'strict parser reports %r, first error of the recovering parser is %r' % (got, want)
        return None
    if err is not None:
        return 'recovered tree has an error at %r %r but strict parsing accepted the text' % (err.value, err.start_pos)
    r = _same_tree(module, m2)
    if r:
        return 'strict and recovering trees differ: ' + r
    return None


# ---- C13 ---------------------------------------------------------------------------------------
def _has_error_ancestor(n):
    p = n.parent
    while p is not None:
        if p.type == 'error_node':
            return True
        p = p.parent
    return False


def fingerprint(module):
    """structure + every leaf's fields (cheap on symbolic strings, unlike dump())"""
    out = []
    for n in nodes(module):
        ch = getattr(n, 'children', None)
        if ch is None:
            out.append((type(n), n.type, n.value, n.prefix, n.line, n.column, id(n.parent)))
        else:
            out.append((type(n), n.type, len(ch), id(n.parent), tuple(id(c) for c in ch)))
    return out


def same_fingerprint(a, b):
    if len(a) != len(b):
        return False
    for x, y in zip(a, b):
        if len(x) != len(y):
            return False
        for u, v in zip(x, y):
            if u is v:
                continue
            if u != v:
                return False
    return True


def check_error_listing(grammar, module):
    before = fingerprint(module)
    issues = list(grammar.iter_errors(module))
    if not same_fingerprint(fingerprint(module), before):
        return 'iter_errors modified the tree'
    end = module.end_pos
    lines = set()
    for i in issues:
        if i.code == 901:
            if not i.message.startswith('SyntaxError: '):
                return 'code 901 with message %r' % i.message
        elif i.code == 903:
            if not i.message.startswith('IndentationError: '):
                return 'code 903 with message %r' % i.message
        else:
            return 'issue code %r' % (i.code,)
        if not ((1, 0) <= i.start_pos <= i.end_pos <= end) or i.start_pos[1] < 0 or i.end_pos[1] < 0:
            return 'issue %d at %r-%r outside the file (ends %r)' % (i.code, i.start_pos, i.end_pos, end)
        if i.start_pos[0] in lines:
            return 'two issues on line %d' % i.start_pos[0]
        lines.add(i.start_pos[0])
    for n in nodes(module):
        if n.type == 'error_leaf' and not _has_error_ancestor(n):
            if n.start_pos[0] not in lines:
                return 'error leaf %r on line %d is not reported' % (n.value, n.start_pos[0])
        elif n.type == 'error_node' and not _has_error_ancestor(n):
            nxt = n.get_next_leaf()
            if not ((nxt is not None and nxt.start_pos[0] in lines) or n.start_pos[0] in lines):
                return 'error node %r: neither line %d nor the line of the following token is reported' % (
                    n.get_code()[:30], n.start_pos[0])
    again = list(grammar.iter_errors(module))
    if [(i.code, i.message, i.start_pos, i.end_pos) for i in issues] != \
            [(i.code, i.message, i.start_pos, i.end_pos) for i in again]:
        return 'second call of iter_errors returns a different list'
    return None


# ---- C20 ---------------------------------------------------------------------------------------
def check_pep8(grammar, module, text, config=None):
    before = fingerprint(module)
    issues = grammar._get_normalizer_issues(module, config)
    if not same_fingerprint(fingerprint(module), before):
        return 'the PEP 8 checker modified the tree'
    end = module.end_pos
    seen = set()
    from .oracle import ref_split_lines
    width = [len(l.rstrip('\r\n')) for l in ref_split_lines(text)]
    for i in issues:
        if not isinstance(i.code, int) or isinstance(i.code, bool) or not isinstance(i.message, str):
            return 'issue with code %r / message %r' % (i.code, i.message)
        if not ((1, 0) <= i.start_pos <= i.end_pos <= end) or i.start_pos[1] < 0 or i.end_pos[1] < 0:
            return 'issue %d at %r-%r outside the file (ends %r)' % (i.code, i.start_pos, i.end_pos, end)
        for pos in (i.start_pos, i.end_pos):
            if pos[1] > width[pos[0] - 1] + 1:
                return 'issue %d at %r-%r: column %d lies beyond the end of line %d (%d characters)' % (
                    i.code, i.start_pos, i.end_pos, pos[1], pos[0], width[pos[0] - 1])
        k = (i.code, i.start_pos)
        if k in seen:
            return 'issue %r reported twice' % (k,)
        seen.add(k)
    again = grammar._get_normalizer_issues(module, config)
    sig = lambda l: sorted((i.code, i.start_pos, i.end_pos, i.message) for i in l)
    if sig(issues) != sig(again):
        return 'second call returns a different list'
    error_free = not any(n.type in ('error_node', 'error_leaf') for n in nodes(module))
    if error_free:
        has292 = any(i.code == 292 for i in issues)
        want = not (text.endswith('\n') or text.endswith('\r'))
        if has292 != want:
            return 'W292 (no newline at end of file) reported=%r, text ends in a line break=%r' % (has292, not want)
    return None


# ---- C19 ---------------------------------------------------------------------------------------
def _same_tree(a, b):
    na, nb = nodes(a), nodes(b)
    if len(na) != len(nb):
        return 'different number of nodes'
    for x, y in zip(na, nb):
        if type(x) is not type(y) or x.type != y.type:
            return 'node classes/types differ: %r vs %r' % (x, y)
        if hasattr(x, 'children'):
            if len(x.children) != len(y.children):
                return 'child counts differ at %s' % x.type
            for c in y.children:
                if c.parent is not y:
                    return 'parent link broken at %s' % y.type
        else:
            if (x.value, x.prefix, x.start_pos, x.end_pos) != (y.value, y.prefix, y.start_pos, y.end_pos):
                return 'leaf differs: %r vs %r' % ((x.value, x.prefix, x.start_pos), (y.value, y.prefix, y.start_pos))
            if x.type == 'error_leaf' and x.token_type != y.token_type:
                return 'error leaf token types differ'
    if b.parent is not None and a.parent is None:
        return 'root gained a parent'
    return None


def _eval_ns():
    ns = {}
    exec('from parso.python.tree import *\nfrom parso.tree import *\nfrom parso.tree import ErrorLeaf, TypedLeaf', ns)
    return ns


def check_serialisation(module, indents=(4, None, 0, '\t')):
    import pickle
    code = module.get_code()
    d0 = module.dump()
    for ind in indents:
        txt = module.dump(indent=ind)
        m2 = eval(txt, _eval_ns())
        r = _same_tree(module, m2)
        if r:
            return 'eval(dump(indent=%r)): %s' % (ind, r)
        if m2.get_code() != code or m2.dump() != d0:
            return 'eval(dump(indent=%r)) has different code/dump' % (ind,)
    if hasattr(module, 'get_used_names'):
        module.get_used_names()          # derived caches live in the tree and are serialised with it
    for proto in (pickle.HIGHEST_PROTOCOL, 2):
        m3 = pickle.loads(pickle.dumps(module, proto))
        r = _same_tree(module, m3)
        if r:
            return 'pickle protocol %d: %s' % (proto, r)
        if m3.get_code() != code or m3.dump() != d0:
            return 'pickle round trip has different code/dump'
    if module.dump() != d0:
        return 'serialising modified the tree'
    return None


def check_refactor(grammar, module, text, index, repl):
    if grammar.refactor(module, {}) != text:
        return 'refactor with an empty map changed the code'
    ns = nodes(module)
    target = ns[index % len(ns)]
    if target.type == 'endmarker' and False:
        return None
    ls = leaves(module)
    off = {}
    o = 0
    for l in ls:
        off[id(l)] = (o, o + len(l.prefix) + len(l.value))
        o += len(l.prefix) + len(l.value)
    a, b = off[id(target.get_first_leaf())][0], off[id(target.get_last_leaf())][1]
    want = text[:a] + repl + text[b:]
    for r in (repl, ''):
        want = text[:a] + r + text[b:]
        got = grammar.refactor(module, {target: r})
        if got != want:
            return 'refactor({%s node %r: %r}) = %r, exact splice is %r' % (target.type, target.get_code()[:30], r, got[:80], want[:80])
    return None
