"""Dissects parso's live token collection into named z3 regular languages (semantic addressing:
pieces of the big PseudoToken pattern are identified by a witness they must accept, not by index)."""
import re._constants as sc
import z3

from . import rx


def _alts(p):
    """top-level alternatives of a parsed (sub)pattern, looking through single groups"""
    p = list(p)
    while len(p) == 1 and p[0][0] is sc.SUBPATTERN:
        p = list(p[0][1][3])
    if len(p) == 1 and p[0][0] is sc.BRANCH:
        return [list(x) for x in p[0][1][1]]
    return [p]


def _member(zre, text):
    r, _, _, _ = rx.check([z3.InRe(z3.StringVal(text), zre)], 10000)
    return r == 'sat'


class TokLang:
    def __init__(self, version_info):
        from parso.python import tokenize as T
        self.version_info = tuple(version_info)
        self.tc = T._get_token_collection(self.version_info)
        self.tr = rx.Translator(self.tc.pseudo_token.flags)
        tree = rx.parse(self.tc.pseudo_token)
        groups = [(av[0], av[3]) for op, av in tree if op is sc.SUBPATTERN]
        if len(groups) != 2 or len(tree) != 2:
            raise ValueError('PseudoToken is not (whitespace)(token)')
        self.ws_tree, self.tok_tree = groups[0][1], groups[1][1]
        self.W = self.tr.seq(self.ws_tree)
        self.alts = _alts(self.tok_tree)
        self.named = {}
        self.unsupported = []
        # classify top-level alternatives of the token group
        witnesses = {'Number': '1', 'Funny': '+', 'ContStr': "'a'", 'Name': 'a', 'Extras': '#x'}
        self.alt_lang = []
        for a in self.alts:
            if rx._has_at(a):
                self.alt_lang.append(None)
                self.named['ExtrasTree'] = a
                continue
            try:
                self.alt_lang.append(self.tr.seq(a))
            except rx.Unsupported as e:
                self.alt_lang.append(None)
                self.unsupported.append(repr(e))
        for name, w in witnesses.items():
            for a, l in zip(self.alts, self.alt_lang):
                if l is not None and _member(l, w) and name not in self.named:
                    self.named[name] = l
                    self.named[name + 'Tree'] = a
        # PseudoExtras: the alternative containing \Z
        ex = self.named.get('ExtrasTree')
        if ex is None:
            raise ValueError('no alternative with \\Z found in PseudoToken')
        self.extras = {}
        for a in _alts(ex):
            if rx._has_at(a):
                self.extras['End'] = a
                continue
            l = self.tr.seq(a)
            for name, w in (('Cont', '\\\n'), ('Comment', '#x'), ('Triple', "'''"), ('FStart', 'f"')):
                if _member(l, w):
                    self.extras[name] = l
        missing = [n for n in ('Number', 'Funny', 'ContStr', 'Name') if n not in self.named] + \
                  [n for n in ('Cont', 'Comment', 'Triple', 'End') if n not in self.extras]
        if missing:
            raise ValueError('cannot address PseudoToken pieces: %r' % missing)
        # the Name alternative must be the capture group 3 the code dispatches on
        name_tree = self.named['NameTree']
        self.name_is_group3 = (len(name_tree) == 1 and name_tree[0][0] is sc.SUBPATTERN
                               and name_tree[0][1][0] == 3)
        self.NL = rx.union([z3.Re('\r\n'), z3.Re('\r'), z3.Re('\n')])
        self.HASNL = z3.Concat(rx.FULL, rx.union([z3.Re('\r'), z3.Re('\n')]), rx.FULL)
        # whole-input language: inputs on which pseudo_token.match succeeds
        self.pseudo_prefix = self.tr.seq_k(list(tree), rx.FULL)
        self.token_nonend = rx.union(
            [l for l in self.alt_lang if l is not None] + [v for k, v in self.extras.items() if k != 'End'])

    def prefix_language(self):
        """P_tok = BOM? (W (Comment | NL | Cont))* W  built from the tokenizer's own sub-patterns"""
        e = self.extras
        return z3.Concat(z3.Option(z3.Re('﻿')),
                         z3.Star(z3.Concat(self.W, rx.union([e['Comment'], self.NL, e['Cont']]))), self.W)


def prefix_tiling_language():
    """(spacing (comment|backslash|newline|formfeed|bom))* spacing  from parso.python.prefix._regex"""
    from parso.python import prefix as P
    tr = rx.Translator(P._regex.flags)
    tree = rx.parse(P._regex)
    groups = [av[3] for op, av in tree if op is sc.SUBPATTERN]
    if len(groups) != 2 or len(tree) != 2:
        raise ValueError('prefix._regex is not (spacing)(part)')
    spacing = tr.seq(groups[0])
    parts = []
    has_end = False
    for a in _alts(groups[1]):
        if rx._has_at(a):
            has_end = True
            continue
        parts.append(tr.seq(a))
    if not has_end:
        raise ValueError('prefix._regex lost its end-of-prefix alternative')
    return z3.Concat(z3.Star(z3.Concat(spacing, rx.union(parts))), spacing), tr, spacing, parts
