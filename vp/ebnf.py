"""Independent reader of the EBNF dialect of parso's grammar files (no solver, no parso code)."""
import re

_TOK = re.compile(r"\s*(?:([A-Za-z_][A-Za-z_0-9]*)|('[^']*'|\"[^\"]*\")|([()\[\]|*+]))")
_RULE = re.compile(r'([A-Za-z_][A-Za-z_0-9]*)\s*:(.*)$')


def read_rules(text):
    """-> (order, {name: rhs text}); a rule starts with `NAME:` in column 0, other non-blank,
    non-comment lines continue the previous rule."""
    order, out, cur = [], {}, None
    for line in text.splitlines():
        body = line.split('#', 1)[0] if "'#'" not in line and '"#"' not in line else line
        if not body.strip():
            continue
        m = _RULE.match(body)
        if m and not body[0].isspace():
            cur = m.group(1)
            if cur in out:
                raise ValueError('rule defined twice: %s' % cur)
            out[cur] = m.group(2)
            order.append(cur)
        else:
            if cur is None:
                raise ValueError('continuation before first rule')
            out[cur] += ' ' + body
    return order, out


class SymTab:
    def __init__(self):
        self.tab = {}
        self.rev = {}

    def __call__(self, x):
        if x not in self.tab:
            c = chr(0x100 + len(self.tab))
            self.tab[x] = c
            self.rev[c] = x
        return self.tab[x]

    def decode(self, s):
        return [self.rev.get(c, '?%r' % c) for c in s]


class Rhs:
    """rhs: items ('|' items)* ; items: item+ ; item: '[' rhs ']' | atom ['+'|'*'] ;
    atom: '(' rhs ')' | NAME | STRING"""

    def __init__(self, s):
        self.t, pos, s = [], 0, s.strip()
        while pos < len(s):
            m = _TOK.match(s, pos)
            if not m:
                if not s[pos:].strip():
                    break
                raise ValueError('cannot read grammar text at %r' % s[pos:pos + 20])
            pos = m.end()
            self.t.append(m.group(1) or m.group(2) or m.group(3))
        self.i, self.symbols = 0, []

    def peek(self):
        return self.t[self.i] if self.i < len(self.t) else None

    def eat(self):
        x = self.t[self.i]
        self.i += 1
        return x

    def parse(self):
        """-> AST: ('sym', x) | ('cat', [..]) | ('alt', [..]) | ('opt', r) | ('star', r) | ('plus', r)"""
        r = self.rhs()
        if self.peek() is not None:
            raise ValueError('trailing %r' % self.peek())
        return r

    def rhs(self):
        alts = [self.items()]
        while self.peek() == '|':
            self.eat()
            alts.append(self.items())
        return ('alt', alts) if len(alts) > 1 else alts[0]

    def items(self):
        xs = [self.item()]
        while self.peek() is not None and self.peek() not in (')', ']', '|'):
            xs.append(self.item())
        return ('cat', xs) if len(xs) > 1 else xs[0]

    def item(self):
        if self.peek() == '[':
            self.eat()
            r = self.rhs()
            if self.eat() != ']':
                raise ValueError('expected ]')
            return ('opt', r)
        a = self.atom()
        if self.peek() == '*':
            self.eat()
            return ('star', a)
        if self.peek() == '+':
            self.eat()
            return ('plus', a)
        return a

    def atom(self):
        if self.peek() == '(':
            self.eat()
            r = self.rhs()
            if self.eat() != ')':
                raise ValueError('expected )')
            return r
        x = self.eat()
        if x in ('[', ']', ')', '|', '*', '+') or x is None:
            raise ValueError('unexpected %r' % x)
        if x not in self.symbols:
            self.symbols.append(x)
        return ('sym', x)


def to_pyre(ast, sym):
    """the same reading as a Python regular expression over symbol characters (used only by
    replay scripts and oracles for *concrete* membership)"""
    k = ast[0]
    if k == 'sym':
        return re.escape(sym(ast[1]))
    if k == 'alt':
        return '(?:' + '|'.join(to_pyre(x, sym) for x in ast[1]) + ')'
    if k == 'cat':
        return ''.join(to_pyre(x, sym) for x in ast[1])
    if k == 'opt':
        return '(?:' + to_pyre(ast[1], sym) + ')?'
    if k == 'star':
        return '(?:' + to_pyre(ast[1], sym) + ')*'
    if k == 'plus':
        return '(?:' + to_pyre(ast[1], sym) + ')+'
    raise ValueError(k)
