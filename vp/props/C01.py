"""C01: lossless round trip."""
from .. import xh, pipeconds as PC
from ..harness import pipe as P
from . import _pipe

LEVEL = 'model_checking'
EXPLANATION = ('CrossHair runs Grammar.parse (real tokenizer + real error-recovering parser) on texts with a symbolic character '
               '(all of Unicode) in a hole of a skeleton, on token streams with a symbolic identifier spelling, and on bytes input '
               'with a symbolic byte and BOM flag; post-condition: get_code() == input, the leaves tile the input, every subtree\'s '
               'code is its contiguous slice. Label holes (every token of the grammar at every position of short programs) are '
               'enumerated completely by the solver (realised). The tokenizer-only obligations (all 1- and 2-character texts) are '
               'decided under C09 and assumed here.')


def run(ctx):
    q = ctx.tier == 'quick'
    own = ['c01']
    ctx.encode(*_pipe.FUNCS, 'parso.utils.python_bytes_to_unicode', 'parso.utils.split_lines')
    ctx.assume(*_pipe.ASSUME)
    ctx.not_claimed(_pipe.OUTSIDE)
    C = []
    ks = [5, 28, 30] if q else list(range(0, len(P.HOLES), 2)) + [31, 33, 35, 37]
    C += PC.text_holes(ctx, own, sorted(set(ks)), vis=(4,), timeout=900)
    C += PC.spell_holes(ctx, own, [0, 3] if q else range(len(P.SPELL)))
    C += PC.label_holes(ctx, own, [P.skel('f"a'), P.skel("f'''")] + _pipe.pick(ctx, 1, len(P.SKELS)) if q else range(len(P.SKELS)),
                        positions=None, vis=(4,) if q else (0, 4, 8))
    C.append(xh.Cond('vp.harness.pipe', 'pipe_bytes', timeout=300, path_timeout=60, env={'VP_VERSIONS': '0,4,8'},
                     name='pipe.pipe_bytes/0', extra_pre=['k == 0', 'at == 1'], bound='byte skeleton 0 with one symbolic ASCII byte inserted at offset 1, with / without UTF-8 BOM', symbolic='byte value, BOM flag'))
    for kk, at in ((1, 2), (2, 0), (3, 0), (4, 0), (5, 20)):
        C.append(xh.Cond('vp.harness.pipe', 'pipe_bytes', timeout=300, path_timeout=60, env={'VP_VERSIONS': '0,4,8'}, name='pipe.pipe_bytes/%d' % kk,
                         extra_pre=['k == %d' % kk, 'at == %d' % at], bound='byte skeleton %d, symbolic ASCII byte at offset %d, BOM flag' % (kk, at), symbolic='byte value, BOM flag'))
    C.append(xh.Cond('vp.harness.units', 'split_lines_c', timeout=200, path_timeout=30,
                     bound='split_lines on every 3-character string over all of Unicode (joins back, line structure)',
                     symbolic='3 code points'))
    xh.run_conditions(ctx, C)
