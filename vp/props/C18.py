"""C18 (partial claim): parsing is a pure function of its arguments; isolated and re-entrant."""
from .. import xh
from ..harness import pure

LEVEL = 'model_checking'
EXPLANATION = (
    'Partial claim: OS-thread preemption at bytecode granularity and first-use races of the memo dictionaries are NOT modelled (the '
    'solver has no handle on the interpreter\'s scheduler). Decided, with all selectors enumerated completely by the solver and parso '
    'running natively: (1) frame condition - a deep fingerprint of every module-level container, every function\'s default arguments, '
    'every class-level container of all parso modules, the generated tables and the grammar objects is unchanged by parse / iter_errors '
    '/ PEP 8 listing / tokenize (memo dictionaries may only gain entries); (2) isolation - the complete observable result of a call '
    'equals the result computed in a fresh state whatever ran before, including calls that end prematurely (strict parse raising inside '
    'a block, abandoned token generators, abandoned issue iterators) and other versions; (3) re-entrancy - a complete parse + listing of '
    'text B executed between any two tokens of a parse of A, or between any two visited leaves of an issue listing of A (both '
    'listings), on the same shared grammar object, leaves both results unchanged - the cooperative model of a thread switch at those '
    'points; two token generators advanced under all 8-bit schedules; (4) load_grammar with a custom path and a version in both orders.')


def run(ctx):
    q = ctx.tier == 'quick'
    ctx.encode('parso.grammar.Grammar.parse/iter_errors/_get_normalizer_issues', 'parso.grammar.load_grammar/_loaded_grammars',
               'parso.parser.BaseParser (per-call stack)', 'parso.python.parser.Parser.__init__/_recovery_tokenize',
               'parso.python.tokenize.tokenize_lines (defaults, indents)', 'parso.python.tokenize._get_token_collection',
               'parso.normalizer.Normalizer.__init__/_instantiate_rules/walk', 'parso.python.errors.ErrorFinder.initialize/_Context',
               'parso.pgen2.generator tables')
    ctx.assume('a thread switch is modelled as "another call runs to completion at this point" at token / visited-leaf granularity',
               'realised-native: all selectors are finite dimensions enumerated completely by CrossHair')
    ctx.not_claimed('preemption inside a single token step / rule; more than two concurrent calls; races on first use of memoised state')
    H = 'vp.harness.pure'
    N = len(pure.TEXTS)
    C = []
    for vi in range(3):
        C.append(xh.Cond(H, 'isolation', timeout=400 if q else 1200, path_timeout=60, name='pure/isolation/v%s' % pure.VERS[vi],
                         extra_pre=['vi == %d' % vi] + (['b == (a + 1) %% %d' % N] if q else []),
                         bound='version %s: prior step in {4 aborted calls, %d other-version parses}, then texts a, b, a' % (pure.VERS[vi], N),
                         realised='text indices, prior step'))
    for vi in ((1,) if q else range(3)):
        for a in range(N):
            C.append(xh.Cond(H, 'reentrant_parse', timeout=400 if q else 1200, path_timeout=60, name='pure/reentrant-parse/v%s/a%d' % (pure.VERS[vi], a),
                             extra_pre=['vi == %d' % vi, 'a == %d' % a] + (['b %% 2 == %d' % (a % 2)] if q else []),
                             bound='parse of text %d with a complete parse+listing of text b after token 0..23' % a,
                             realised='text b, switch point'))
            C.append(xh.Cond(H, 'reentrant_errors', timeout=400 if q else 1200, path_timeout=60, name='pure/reentrant-listing/v%s/a%d' % (pure.VERS[vi], a),
                             extra_pre=['vi == %d' % vi, 'a == %d' % a] + (['b %% 2 == %d' % ((a + 1) % 2)] if q else []),
                             bound='syntax / PEP 8 listing of text %d with a complete listing of text b after visited leaf 0..23' % a,
                             realised='text b, switch point, which listing'))
    C.append(xh.Cond(H, 'interleaved_tokenizers', timeout=400 if q else 1500, path_timeout=60,
                     extra_pre=['vi == 1', 'b == (a + 3) %% %d' % N, 's < 32', 'a % 3 == 0'] if q else ['vi == 1', 'b == (a + 3) %% %d' % N, 's < 64'],
                     bound='two token generators advanced alternately under %s schedules' % ('32 5-bit' if q else '64 6-bit'),
                     realised='texts, schedule'))
    C.append(xh.Cond(H, 'loading', timeout=200, path_timeout=60, bound='for each of the 9 versions: the grammar loaded by version is built from that version\'s file, also when a grammar was loaded from an explicit path under the same version before / after',
                     realised='order, version'))
    xh.run_conditions(ctx, C)
