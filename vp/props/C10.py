"""C10 (partial claim): parso's token classes are the reference tokenizer's token classes."""
import glob
import json
import os
import subprocess
import sys

import z3

from .. import rx, toklang, lemmas
from ..core import HOLDS, VIOLATED, KNOWN, INCONCLUSIVE, ERROR, ROOT

LEVEL = 'model_checking'
EXPLANATION = (
    'Partial claim: token CLASSES, not token streams. For every reference CPython found on this machine the pure-Python '
    'Lib/tokenize.py regular expressions (the reference lexical grammar) and token.EXACT_TOKEN_TYPES are read at run time from '
    'that interpreter; z3 decides, for strings of unbounded length, language equalities / inclusions between parso\'s live '
    'patterns for the same version and the reference: Number, triple-quote starts (string prefixes incl. f-strings), one-line '
    'string starts, Comment, Whitespace, operators vs. the exact operator table, identifiers inside Name. Plus a z3 model of '
    'CPython\'s indentation columns (tab stops of 8, alt-tab of 1, form feed resets) against parso\'s measure on whitespace words '
    'of length <= 6. Interaction of classes in one stream (NEWLINE vs NL, longest match across classes, positions) is NOT decided.')


def reference_interpreters():
    out = {}
    for p in sorted(glob.glob('/root/.pyenv/versions/3.*/bin/python')) + ['/venv/bin/python', '/opt/veriftools/pyvenv/bin/python']:
        try:
            r = subprocess.run([p, os.path.join(ROOT, 'vp', 'refdump.py')], capture_output=True, text=True, timeout=60)
            d = json.loads(r.stdout)
        except Exception:
            continue
        v = tuple(d['version'][:2])
        if v not in out and v >= (3, 6):
            d['python'] = p
            out[v] = d
    return out


def _finite_members(lang, limit=200):
    s = z3.Solver()
    s.set('timeout', 20000)
    s.add(z3.InRe(rx.W, lang))
    out = []
    while len(out) < limit:
        r = str(s.check())
        if r != 'sat':
            return out, r == 'unsat'
        v = rx.witness(s.model())
        out.append(v)
        s.add(rx.W != z3.StringVal(v))
    return out, False


def run(ctx):
    ctx.encode('parso.python.tokenize._create_token_collection (Number, StringPrefix, Triple, ContStr, Operator/Bracket/Special, Name, '
               'Comment, Whitespace)', 'parso.python.tokenize._all_string_prefixes', 'parso.python.tokenize.tokenize_lines (indentation measure)')
    ctx.assume('reference lexical grammar = the regular expressions of Lib/tokenize.py and token.EXACT_TOKEN_TYPES of each reference '
               'interpreter found under /root/.pyenv/versions (3.12+ still ship these tables); 3.14 judged by 3.13',
               'trusted: vp/rx.py translator; CPython indentation rule transcribed from Parser/tokenizer.c (tab stops 8, alttab 1, '
               'form feed resets both columns)')
    ctx.not_claimed('equality of whole token streams: NEWLINE vs NL decisions, continuation lines, longest match across token classes, '
                    'positions - CPython\'s tokenizer is C code, CrossHair realises at that boundary')
    refs = reference_interpreters()
    if not refs:
        ctx.error('references', 'no reference interpreter found')
        return
    ctx.notes.append('reference interpreters: %s' % {'%d.%d' % k: v['python'] for k, v in refs.items()})
    versions = [(3, 6), (3, 7), (3, 8), (3, 9), (3, 10), (3, 11), (3, 12), (3, 13), (3, 14)]
    from parso.python import tokenize as PT
    for v in versions:
        ref = refs.get(v) or (refs.get((3, 13)) if v == (3, 14) else None)
        tag = '%d.%d' % v
        if ref is None:
            ctx.notes.append('no reference interpreter for %s' % tag)
            continue
        tl = toklang.TokLang(v)
        rt = rx.Translator(0)

        def L(name):
            return rt.seq(rx.parse(ref[name]))
        uni = tl.tr.uniform_above
        # numbers
        for a, b, nm in ((tl.named['Number'], L('Number'), 'parso-in-ref'), (L('Number'), tl.named['Number'], 'ref-in-parso')):
            lemmas.subset(ctx, 'N-number/%s:%s' % (nm, tag), a, b, uniform=uni, broken_b=z3.Plus(z3.Range('0', '9')),
                          concrete='c10_number', concrete_args=(ref['python'],))
        # triple-quote starts = all string prefixes (f-strings counted as strings)
        for a, b, nm in ((tl.extras['Triple'], L('Triple'), 'parso-in-ref'), (L('Triple'), tl.extras['Triple'], 'ref-in-parso')):
            lemmas.subset(ctx, 'S-triple-start/%s:%s' % (nm, tag), a, b, uniform=uni, broken_b=z3.Re("'''"))
        # one-line strings / continued starts: parso handles f-strings separately -> compare the non-f part
        pfx_f = rx.union([z3.Re(p) for p in sorted(PT._all_string_prefixes(include_fstring=True, only_fstring=True))])
        fstr = z3.Concat(pfx_f, rx.FULL)
        # (tokenize.py treats a lone \\r inside a line as an ordinary character, the C tokenizer and parso as a line
        # break: strings containing \\r are excluded from this comparison)
        nocr = z3.Star(rt.charset(rx._complement([(13, 13)])))
        for a, b, nm in ((z3.Intersect(tl.named['ContStr'], nocr), L('ContStr'), 'parso-in-ref'),
                         (z3.Intersect(L('ContStr'), z3.Complement(fstr), nocr), tl.named['ContStr'], 'ref-in-parso')):
            lemmas.subset(ctx, 'S-one-line-string/%s:%s' % (nm, tag), a, b, uniform=uni, broken_b=z3.Re("''"))
        for nm in ('Comment', 'Whitespace'):
            mine = tl.extras['Comment'] if nm == 'Comment' else tl.W
            lemmas.subset(ctx, 'C-%s/parso-in-ref:%s' % (nm.lower(), tag), mine, L(nm), uniform=uni)
            lemmas.subset(ctx, 'C-%s/ref-in-parso:%s' % (nm.lower(), tag), L(nm), mine, uniform=uni)
        # operators: parso's operator language (minus the line breaks) vs the exact table
        ops = z3.Intersect(tl.named['Funny'], z3.Complement(tl.NL))
        ref_nl = rx.union([z3.Re('\r\n'), z3.Re('\n'), z3.Re('\r')])
        exact = z3.Union(rx.union([z3.Re(o) for o in ref['EXACT']]), z3.Intersect(L('Funny'), z3.Complement(ref_nl)))
        lemmas.subset(ctx, 'O-ref-operators-are-parso-operators:%s' % tag, exact, ops, uniform=uni, broken_b=z3.Re('+'),
                      concrete='c10_stream', concrete_args=(ref['python'], v))
        # parso may know operators CPython's tokenizer reports as error tokens (they never occur in programs it accepts);
        # everything else must be in the table
        extra_ok = rx.union([z3.Re(o) for o in ('!', '`', '`=', '$', '?')])
        lemmas.subset(ctx, 'O-parso-operators-are-ref-operators:%s' % tag, ops, z3.Union(exact, extra_ok), uniform=uni,
                      broken_b=exact if False else z3.Re('+'), concrete='c10_stream', concrete_args=(ref['python'], v))
        # first-match = longest match for operators: every member of the (finite) operator language is consumed whole
        members, complete = _finite_members(ops)
        bad = [m for m in members if tl.tc.pseudo_token.match(m) is None or tl.tc.pseudo_token.match(m).group(2) != m]
        ctx.add('O-first-match-is-longest:%s' % tag, 'z3+re', HOLDS if complete and not bad else (VIOLATED if bad else INCONCLUSIVE),
                0.0, nonvacuous=bool(members), kind='finite-language-enumeration',
                detail='%d operators enumerated by z3 (complete=%s); each matched whole by the real PseudoToken; not whole: %r'
                       % (len(members), complete, bad[:5]), bound='the finite operator language, enumerated exhaustively by the solver')
        if bad:
            path = ctx.write_replay('O-first-match-%s' % tag, lemmas.replay_source('c10_operator', (bad[0], v)))
            ctx.violation('O-first-match-is-longest:%s' % tag, path, 'operator %r is not matched whole' % bad[0])
        # identifiers are names: character-level inclusion (every XID_Continue character is a Name character)
        key = tl.tc.pseudo_token.pattern
        if key not in _ident_done:
            _ident_done.add(key)
            import time
            t0 = time.time()
            c = z3.Int('c')
            cont = _xid_cont_ranges()
            name_member = z3.InRe(z3.Unit(z3.CharFromBv(z3.Int2BV(c, 18))), tl.named['Name']) if False else None
            # membership of a one-character string in L(Name), decided per range end points by the regex solver
            sv = z3.String('ch')
            r, m, dt, _ = rx.check([z3.Length(sv) == 1, z3.InRe(sv, tl.tr.charset(cont)),
                                    z3.Not(z3.InRe(sv, tl.named['Name']))], 60000)
            verdict = HOLDS if r == 'unsat' else (VIOLATED if r == 'sat' else INCONCLUSIVE)
            det = 'every XID_Continue character (<= U+2FFFF, %d ranges) is a one-character Name match' % len(cont)
            if r == 'sat':
                w = rx.witness(m, sv)
                det = 'identifier character %r is not matched by the Name pattern' % w
                path = ctx.write_replay('I-name-char', lemmas.replay_source('c10_name_char', (w, v)))
                ctx.violation('I-identifier-chars-in-name:%s' % tag, path, det)
            ctx.add('I-identifier-chars-in-name:%s' % tag, 'z3', verdict, time.time() - t0, nonvacuous=True, detail=det,
                    bound='single characters <= U+2FFFF (Name is a + of one character class, so the word-level claim follows)')
    indentation(ctx)
    stream_conditions(ctx)


_ident_done = set()


def _xid_cont_ranges():
    out = []
    c0 = None
    for c in range(0x30000):
        if ('a' + chr(c)).isidentifier():
            if c0 is None:
                c0 = c
        elif c0 is not None:
            out.append((c0, c - 1))
            c0 = None
    return out


def indentation(ctx):
    """CPython: col advances to the next multiple of 8 at a tab, altcol by 1; a form feed resets both; two
    indentation strings compared by col must compare the same by altcol, else TabError.  parso: the match length."""
    import time
    N = 6
    t0 = time.time()

    def word(prefix):
        cs = [z3.Int('%s%d' % (prefix, i)) for i in range(N)]     # 0 end, 1 space, 2 tab, 3 form feed
        cons = [z3.And(c >= 0, c <= 3) for c in cs]
        for i in range(N - 1):
            cons.append(z3.Implies(cs[i] == 0, cs[i + 1] == 0))
        col = z3.IntVal(0)
        alt = z3.IntVal(0)
        ln = z3.IntVal(0)
        for c in cs:
            col = z3.If(c == 1, col + 1, z3.If(c == 2, (col / 8 + 1) * 8, z3.If(c == 3, 0, col)))
            alt = z3.If(c == 1, alt + 1, z3.If(c == 2, alt + 1, z3.If(c == 3, 0, alt)))
            ln = z3.If(c != 0, ln + 1, ln)
        has_ff = z3.Or(*[c == 3 for c in cs])
        return cs, cons, col, alt, ln, has_ff
    a, ca, cola, alta, lena, ffa = word('a')
    b, cb, colb, altb, lenb, ffb = word('b')
    consistent = z3.And((cola < colb) == (alta < altb), (cola == colb) == (alta == altb))
    differs = z3.Or((cola < colb) != (lena < lenb), (cola == colb) != (lena == lenb))

    def ask(extra):
        s = z3.Solver()
        s.set('timeout', 60000)
        s.add(*ca, *cb, consistent, differs, *extra)
        r = str(s.check())
        m = s.model() if r == 'sat' else None
        return r, m
    r, m = ask([])
    dt = time.time() - t0
    bound = 'pairs of indentation strings of length <= %d over {space, tab, form feed}' % N

    def render(m, cs):
        return ''.join({1: ' ', 2: '\t', 3: '\f'}[m.eval(c, model_completion=True).as_long()] for c in cs
                       if m.eval(c, model_completion=True).as_long() != 0)
    if r == 'sat':
        w1, w2 = render(m, a), render(m, b)
        path = ctx.write_replay('indent-order', lemmas.replay_source('c10_indent', (w1, w2)))
        ok, out = lemmas.run_replay(path)
        inside = '\f' in w1 or '\f' in w2
        if ok and inside and ctx.known_active('indent-formfeed-column'):
            ctx.hit_known('indent-formfeed-column', 'indentation %r vs %r' % (w1, w2))
            ctx.add('IND-order', 'z3', KNOWN, dt, detail='%r vs %r' % (w1, w2), bound=bound)
            r2, m2 = ask([z3.Not(ffa), z3.Not(ffb)])
            if r2 == 'unsat':
                ctx.add('IND-order/minus-known', 'z3', HOLDS, time.time() - t0, nonvacuous=True, bound=bound + ', no form feed',
                        detail='for all pairs CPython accepts as consistent, parso orders them as CPython does')
            elif r2 == 'sat':
                w1, w2 = render(m2, a), render(m2, b)
                path = ctx.write_replay('indent-order2', lemmas.replay_source('c10_indent', (w1, w2)))
                ok, out = lemmas.run_replay(path)
                if ok:
                    ctx.add('IND-order/minus-known', 'z3', VIOLATED, time.time() - t0, detail='%r vs %r' % (w1, w2))
                    ctx.violation('IND-order', path, 'indentation %r vs %r ordered differently: %s' % (w1, w2, out[-200:]))
                else:
                    ctx.add('IND-order/minus-known', 'z3', INCONCLUSIVE, time.time() - t0,
                            detail='model says %r vs %r differ but the real tokenizers agree (model too coarse)' % (w1, w2))
            else:
                ctx.add('IND-order/minus-known', 'z3', INCONCLUSIVE, time.time() - t0, detail='z3 ' + r2)
        elif ok:
            ctx.add('IND-order', 'z3', VIOLATED, dt, detail='%r vs %r' % (w1, w2))
            ctx.violation('IND-order', path, 'indentation %r vs %r: %s' % (w1, w2, out[-200:]))
        else:
            ctx.add('IND-order', 'z3', INCONCLUSIVE, dt, detail='model counterexample %r vs %r does not replay: %s' % (w1, w2, out[-200:]))
    elif r == 'unsat':
        ctx.add('IND-order', 'z3', HOLDS, dt, nonvacuous=True, bound=bound)
    else:
        ctx.add('IND-order', 'z3', INCONCLUSIVE, dt, detail='z3 ' + r)


def stream_conditions(ctx):
    """stream level (partial): parso vs the pure-Python reference tokenizer of CPython 3.11/3.10, both executed
    symbolically by CrossHair on little valid programs with a one-character ASCII hole"""
    from .. import xh
    from ..harness import reftok
    if reftok.REF is None:
        ctx.notes.append('no pure-Python reference tokenize.py (3.11 / 3.10) found: stream-level conditions skipped')
        return
    q = ctx.tier == 'quick'
    ctx.encode('parso.python.tokenize.tokenize_lines (whole streams, version %d.%d)' % reftok.REF_VERSION)
    ctx.assume('stream level: the reference is the source of Lib/tokenize.py of CPython %d.%d (%s), loaded into the checking process; '
               'lone CR and TAB holes excluded (tokenize.py and the C tokenizer differ there)' % (reftok.REF_VERSION + (reftok.REF.__file__,)))
    C = []
    for k in range(len(reftok.HOLES)):
        pre, post = reftok.HOLES[k]
        C.append(xh.Cond('vp.harness.reftok', 'tok_vs_ref', timeout=300, path_timeout=30,
                         name='stream/hole%d(%r+c+%r)' % (k, pre, post), extra_pre=['k == %d' % k],
                         bound='program %r + one ASCII character + %r: same significant tokens (type, text, position) as the '
                               'reference tokenizer whenever it tokenizes without error' % (pre, post),
                         realised='code point of the hole (complete ASCII alphabet; both tokenizers run natively)'))
    if not q:
        for k in range(len(reftok.HOLES)):
            for lo in range(0, 128, 16):
                C.append(xh.Cond('vp.harness.reftok', 'tok_vs_ref2', timeout=1200, path_timeout=30,
                                 name='stream2/hole%d/c1 in [%d,%d)' % (k, lo, lo + 16), extra_pre=['k == %d' % k, '%d <= c1 < %d' % (lo, lo + 16)],
                                 bound='two-character hole: any ASCII character followed by one of %d lexically relevant characters' % len(reftok.ALPHA2),
                                 realised='two hole characters'))
    xh.run_conditions(ctx, C)
