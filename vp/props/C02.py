"""C02: error recovery is total."""
from .. import xh, pipeconds as PC
from ..harness import pipe as P
from . import _pipe

LEVEL = 'model_checking'
EXPLANATION = ('CrossHair runs the real tokenizer + error-recovering parser on skeleton texts with a symbolic character (all of '
               'Unicode), on token streams with symbolic identifier spellings, and on every token of the grammar\'s label alphabet '
               'at every position of short programs (realised): no exception, termination on every path, root is a parent-less '
               'file_input ending in the end marker, every interior node non-empty, every leaf with str value/prefix.')


def run(ctx):
    q = ctx.tier == 'quick'
    own = ['c02']
    ctx.encode(*_pipe.FUNCS)
    ctx.assume(*_pipe.ASSUME)
    ctx.not_claimed(_pipe.OUTSIDE)
    C = []
    ks = [31, 32, 17, 25, 39] if q else list(range(0, len(P.HOLES), 2)) + [31, 33, 35, 37]
    if not q:
        C += PC.text_holes(ctx, own, ks, vis=(4,), timeout=900)
    C += PC.spell_holes(ctx, own, range(0, len(P.SPELL), 2) if q else range(len(P.SPELL)))
    C += PC.label_holes(ctx, own, [P.skel('f"a'), P.skel("f'''"), P.skel('((((')] + _pipe.pick(ctx, 1, len(P.SKELS)) if q else range(len(P.SKELS)),
                        vis=(4,) if q else (0, 4, 8))
    if not q:
        for k in (0, 4, 10):
            for pos in range(len(P.SKELS[k]) + 1):
                C.append(xh.Cond('vp.harness.pipe', 'pipe_label2', timeout=3000, path_timeout=30,
                                 env={'VP_CLAUSES': PC.SHARED, 'VP_VERSIONS': '0,4,8'}, own=own,
                                 name='pipe/label2#%d@%d' % (k, pos), extra_pre=['k == %d' % k, 'vi == 4', 'pos == %d' % pos],
                                 bound='two adjacent tokens from the complete label alphabet inserted at position %d of skeleton %d' % (pos, k),
                                 realised='two label indices'))
    from . import C09
    ctx.encode('parso.python.tokenize token patterns (termination of the backtracking matcher)')
    C09.redos_lemmas(ctx)
    xh.run_conditions(ctx, C)
