"""C15: source decoding and line splitting follow Python's rules."""
import re
import tokenize

import z3

from .. import rx, lemmas, xh
from ..core import HOLDS, VIOLATED, INCONCLUSIVE, ERROR

LEVEL = 'model_checking'
EXPLANATION = (
    'Decoding: z3 decides a differential lemma over ALL ASCII texts of the first two lines (unbounded length, \\n line ends): '
    '"parso\'s declaration search (its regex constants, read from the code object of python_bytes_to_unicode) finds a cookie" iff '
    '"CPython\'s rule finds one" (cookie on line 1, or on line 2 when line 1 is blank or a comment - built from the running '
    'interpreter\'s tokenize.cookie_re / blank_re). Counterexamples and enumerated members are replayed through '
    'python_bytes_to_unicode vs tokenize.detect_encoding + decode. Line splitting: CrossHair decides the split_lines laws (join '
    'law, >= 1 line, keepends / non-keepends agreement, breaks exactly at \\n, \\r\\n, \\r) for every string of length <= 3 over all '
    'of Unicode, and that results are fresh lists (no aliasing between calls).')


def _parso_constants():
    from parso import utils
    consts = []

    def walk(code):
        for c in code.co_consts:
            if isinstance(c, bytes):
                consts.append(c)
            elif hasattr(c, 'co_consts'):
                walk(c)
    walk(utils.python_bytes_to_unicode.__code__)
    cookie = [c for c in consts if b'coding' in c]
    lines = [c for c in consts if c not in cookie and re.match(c, b'a\nb\nc') is not None
             and re.match(c, b'a\nb\nc').group(0) == b'a\nb\n']
    return consts, cookie, lines


def decode_lemma(ctx):
    from parso import python_bytes_to_unicode
    consts, cookie, lines = _parso_constants()
    if len(cookie) != 1 or len(lines) != 1:
        ctx.error('D0-shape', 'cannot address the declaration regex / first-two-lines regex in python_bytes_to_unicode: %r' % (consts,))
        return
    # search or match semantics? probe the real function
    try:
        probe = python_bytes_to_unicode(b'xx # coding: latin-1\n\xe9', errors='strict')
    except Exception:
        probe = None
    tr = rx.Translator(0, ascii_only=True)
    ASCII = tr.charset([(0, 127)])
    NONL = tr.charset([(0, 9), (11, 12), (14, 127)])          # no \n, no \r
    LINE_NL = z3.Concat(z3.Star(NONL), z3.Re('\n'))
    LINE = z3.Union(LINE_NL, z3.Plus(NONL))
    DOMAIN = z3.Union(rx.EPS, LINE, z3.Concat(LINE_NL, LINE))   # the first two lines, ASCII, \n only
    ptree = list(rx.parse(cookie[0]))
    anchored = re.match(cookie[0], b'xx # coding: latin-1\n') is None and re.search(cookie[0], b'xx # coding: latin-1\n') is not None
    # which API does the code use?  decided by behaviour of the real function on a discriminating input
    uses_search = probe is not None and 'é' in probe and not anchored
    parso_lang = tr.seq_k(ptree, rx.FULL)
    if uses_search or (re.search(cookie[0], b'xx # coding: latin-1\n') is not None and probe is not None and 'é' in probe):
        parso_lang = z3.Concat(rx.FULL, parso_lang)
    ctr = rx.Translator(tokenize.cookie_re.flags)
    COOKIE = ctr.seq_k(list(rx.parse(tokenize.cookie_re)), rx.FULL)
    BLANK = ctr.seq_k(list(rx.parse(tokenize.blank_re.pattern.decode('latin-1'), tokenize.blank_re.flags & ~re.ASCII | re.ASCII)), rx.FULL)
    first_cookie = z3.Concat(z3.Intersect(LINE, COOKIE), rx.FULL)
    second_cookie = z3.Concat(z3.Intersect(LINE_NL, BLANK, z3.Complement(COOKIE)), z3.Intersect(LINE, COOKIE), rx.FULL)
    cpython_lang = z3.Union(first_cookie, second_cookie)
    bound = 'all ASCII texts of the first two lines (unbounded length), \\n line ends, no \\r'
    for name, a, b, what in (('D1-no-false-cookie', parso_lang, cpython_lang, 'parso finds a declaration where CPython finds none'),
                             ('D2-no-missed-cookie', cpython_lang, parso_lang, 'CPython honours a declaration parso does not find')):
        lemmas.subset(ctx, name, z3.Intersect(a, DOMAIN), b, concrete='c15_decode', bound=bound, uniform=False,
                      broken_b=z3.Concat(z3.Re('#'), rx.FULL))
    # declared names: enumerated members of both languages are pushed through the real functions
    from .. import concrete
    import io
    import contextlib
    n = bad = 0
    for lang in (z3.Intersect(parso_lang, DOMAIN), z3.Intersect(cpython_lang, DOMAIN)):
        for w in rx.members(lang, 14):
            for codec in ('latin-1', 'utf-8', 'cp1252'):
                w2 = re.sub(r'(coding[:=][ \t]*)[-\w.]+', lambda m: m.group(1) + codec, w, count=1)
                with contextlib.redirect_stdout(io.StringIO()):
                    r = concrete.c15_decode(w2)
                n += 1
                if r:
                    bad += 1
                    path = ctx.write_replay('D3-%d' % n, lemmas.replay_source('c15_decode', (w2,)))
                    ctx.violation('D3-declared-name', path, 'file starting with %r: parso and CPython decode differently' % w2)
    ctx.add('D3-declared-name-on-enumerated-members', 'z3+replay', HOLDS if not bad else VIOLATED, 0.0, nonvacuous=n > 0,
            kind='model-enumeration', detail='%d members of the two declaration languages x 3 codecs replayed through '
            'python_bytes_to_unicode vs tokenize.detect_encoding+decode' % n, bound='z3-enumerated members (sampling, supplementary)')


def run(ctx):
    q = ctx.tier == 'quick'
    ctx.encode('parso.utils.python_bytes_to_unicode (detect_encoding regex constants)', 'parso.utils.split_lines',
               'parso.grammar.Grammar.parse (bytes input)', 'parso.file_io')
    ctx.assume('reference = the running interpreter\'s tokenize.cookie_re / blank_re and detect_encoding (CPython 3.12); '
               'trusted: vp/rx.py translator incl. ASCII classes for bytes patterns, reference line splitter in vp/oracle.py')
    ctx.not_claimed('first two lines containing \\r or non-ASCII bytes (tokenize.py and the C tokenizer differ there); BOM followed by '
                    'a conflicting declaration (CPython refuses the file); strings longer than 3 characters for split_lines')
    decode_lemma(ctx)
    U = 'vp.harness.units'
    C = [
        xh.Cond(U, 'split_lines_c', timeout=300 if q else 1200, path_timeout=30,
                bound='every 3-character string over all of Unicode', symbolic='3 code points'),
        xh.Cond(U, 'split_lines_laws', timeout=200, path_timeout=30, extra_pre=['len(s) <= 2'],
                bound='every string of length <= 2 over all of Unicode (symbolic length)', symbolic='string'),
        xh.Cond(U, 'split_lines_fresh', timeout=200, path_timeout=30,
                bound='two calls on equal 2-character strings with an in-place edit of the first result in between',
                symbolic='2 code points, keepends flag'),
        xh.Cond(U, 'split_lines_fresh_native', timeout=200, path_timeout=30,
                bound='the same law natively (functools caches live) on 36 two-character strings over {a, LF, CR, FF, space, b}',
                realised='two character indices, keepends flag'),
        xh.Cond(U, 'split_lines_c', timeout=120, path_timeout=30, twin='split-loses-fs'),
    ] + [
        xh.Cond('vp.harness.pipe', 'pipe_bytes', timeout=300, path_timeout=60, env={'VP_VERSIONS': '0,4,8'}, name='pipe.pipe_bytes/%d' % kk,
                extra_pre=['k == %d' % kk, 'at == %d' % at], bound='byte skeleton %d, symbolic ASCII byte at offset %d, BOM flag' % (kk, at),
                symbolic='byte value, BOM flag')
        for kk, at in ((0, 1), (1, 2), (2, 0), (3, 0), (4, 0), (5, 20))
    ]
    xh.run_conditions(ctx, C)
