"""C06: the parser accepts every sentence of the grammar and returns its derivation."""
from concurrent.futures import ProcessPoolExecutor

from .. import xh, gramjobs
from . import C08

LEVEL = 'model_checking'
EXPLANATION = (
    'Table level (z3, unbounded in sentence length, all rules of all shipped grammar files): L(generated DFA) = L(right-hand side); '
    'token-to-action table = terminal arcs + FIRST of nonterminal arcs with the right push chain (FIRST = solver\'s solution of the '
    'begins-with equations); no state claims a token twice; no nullable rule; no FIRST/FOLLOW conflict (FOLLOW as least fixpoint in '
    'z3\'s Datalog engine) - the textbook condition under which the greedy table-driven automaton accepts exactly the grammar\'s '
    'language with the unique leftmost derivation. Engine level (bounded): derivations over the REAL tables - from file_input and '
    'eval_input down to a focus rule along a shortest context, then 4 free arc choices inside the focus rule, completed by shortest '
    'sentences - rendered as text, parsed strictly and with recovery; the tree must be the derivation after the collapsing '
    'conventions. The arc choices are realised by the solver (complete per condition), parso then runs natively.')


def run(ctx):
    q = ctx.tier == 'quick'
    ctx.encode('parso.parser.BaseParser.parse/_add_token/_pop', 'parso.parser._token_to_transition', 'parso.python.parser.Parser.convert_node/convert_leaf',
               'parso.grammar.Grammar.parse (error_recovery=False, start_symbol)', 'parso.pgen2.generator (tables)', 'parso.python.tokenize.tokenize')
    ctx.assume('trusted: EBNF reader, derivation generator / renderer / collapsing conventions in vp/derive.py (validated natively on 700k '
               'derivations), z3; token sequences the tokenizer cannot produce are excluded as the property says: a bare NEWLINE statement, '
               '`<>`, a top-level `:` / `:=` inside an f-string replacement field')
    ctx.not_claimed('derivations with more than 4 free choices below the focus rule; identifier / number / string spellings other than the '
                    'canonical a, 1, \'s\' at the engine level (spellings are covered by the lexical lemmas of C09/C10)')
    # table level: all shipped grammars, with FOLLOW
    files = gramjobs.shipped_grammar_files()
    with ProcessPoolExecutor(max_workers=16) as ex:
        jobs = [(p, ex.submit(gramjobs.job_file, p, True)) for p in files]
        for p, j in jobs:
            out = j.result()
            with open(p) as f:
                text = f.read()
            C08.handle_results(ctx, text, out['results'])
            if out['sample']:
                ctx.sample(out['sample'])
    # engine level
    from ..harness import deriv
    H = 'vp.harness.deriv'
    C = []
    for vi in (0, 4, 8):
        rules = deriv.RULES.get(vi) or []
        if q:
            n = 10 if vi == 4 else 4
            idx = sorted(set([(ctx.seed * 7 + i * (len(rules) // n)) % len(rules) for i in range(n)] +
                             [rules.index(r) for r in ('funcdef', 'type_params', 'eval_input', 'typedargslist', 'dictorsetmaker', 'import_from', 'fstring_format_spec', 'fstring_expr', 'atom')
                              if r in rules]))
        else:
            idx = range(len(rules)) if vi == 4 else range(vi % 4, len(rules), 4)
        for r in idx:
            important = rules[r] in ('funcdef', 'type_params', 'eval_input', 'typedargslist', 'dictorsetmaker', 'import_from',
                                     'fstring_format_spec', 'fstring_expr', 'atom')
            if q and important and vi != 4 and rules[r] not in ('funcdef', 'type_params', 'fstring_format_spec'):
                continue
            C.append(xh.Cond(H, 'deriv', timeout=300 if q else 900, path_timeout=30, env={'VP_VERSIONS': '0,2,4,6,8'},
                             name='deriv/%s/v%s' % (rules[r], deriv.VERSIONS[vi]),
                             extra_pre=['vi == %d' % vi, 'r == %d' % r] + (
                                 (['c3 < 3', 'c4 == 0'] if important else ['c3 == 0', 'c4 == 0']) if q else ['c3 < 3', 'c4 < 2']),
                             bound='derivations from file_input and eval_input through rule %s with %s free arc choices' % (
                                 rules[r], ('6x6x3' if important else '6x6') if q else '6x6x3x2'),
                             realised='4 arc choices, start-rule flag (complete)'))
    xh.run_conditions(ctx, C)
