"""C04 (weak claim): incremental re-parse equals a fresh parse after edit histories."""
from .. import xh
from ..harness import diffh

LEVEL = 'model_checking'
EXPLANATION = (
    'Weak, bounded claim. difflib hashes lines and the copy logic walks a mutable tree, so symbolic text is realised on entry: '
    'the edit selectors (operation, line index, pool line) are enumerated COMPLETELY by the solver per condition and parso then '
    'runs natively. Decided for all one-edit histories, for two-edit histories with the second edit near the first or at the end '
    'of the file, and for edit/undo/redo/truncate histories over 6 base files (class bodies, open brackets, decorators, async, '
    'flows, BOM, form feed, missing final newline, error nodes) x a 20-line pool (3-column indents, tabs, unterminated strings, '
    'lone backslash, keywords): after every step the tree returned by parse(diff_cache=True) is structurally identical to a fresh '
    'parse (types, values, prefixes, start AND end positions, parents), reproduces the text, has a fresh used-names index and the '
    'same syntax / PEP 8 issue lists. Genuinely symbolic: the position arithmetic units (_update_positions for any line offset, '
    '_ends_with_newline over all of Unicode).')


def run(ctx):
    q = ctx.tier == 'quick'
    ctx.encode('parso.python.diff.DiffParser.update/_copy_from_old_parser/_parse/_try_parse_part/_diff_tokenize',
               'parso.python.diff._NodesTree (copy_nodes, _copy_nodes, add_parsed_nodes, close)', 'parso.python.diff._NodesTreeNode.finish',
               'parso.python.diff._update_positions', 'parso.python.diff._ends_with_newline', 'parso.grammar.Grammar.parse (diff_cache)',
               'parso.cache.parser_cache / try_to_save_module', 'parso.python.tree.Module.get_used_names')
    ctx.assume('oracle = fresh parse of the same text by the same grammar object, compared with vp/treeoracle._same_tree',
               'realised-native: edit selectors are finite dimensions enumerated completely by CrossHair; no symbolic text reaches difflib')
    ctx.not_claimed('histories longer than two edits (plus the undo/redo pattern); files other than the 6 bases; edits other than '
                    'single-line insert/delete/replace/duplicate from the pool; versions other than 3.10')
    H = 'vp.harness.diffh'
    C = [
        xh.Cond(H, 'update_positions', timeout=120, path_timeout=30, bound='three leaves on arbitrary lines, any line offset (unbounded int), '
                'any last leaf', symbolic='offset, 3 line numbers, last-leaf index'),
        xh.Cond(H, 'ends_with_newline', timeout=200, path_timeout=30, bound='newline leaf / NEWLINE error leaf / name / leaf behind a DEDENT error '
                'leaf; value and suffix: any Unicode character', symbolic='2 code points, kind, flag'),
    ]
    for b in range(len(diffh.BASES)):
        for op in range(4):
            C.append(xh.Cond(H, 'history1', timeout=400 if q else 900, path_timeout=30, name='diff/one-edit/base%d/op%d' % (b, op),
                             extra_pre=['b == %d' % b, 'op == %d' % op] + (['i %% 3 == %d' % ((ctx.seed + b + op) % 3)] if q else []),
                             bound='base %d, operation %d, %s line index (0..17) x every pool line (%d)' % (
                                 b, op, 'every third' if q else 'every', len(diffh.POOL)),
                             realised='line index, pool index (complete)'))
    for b in range(len(diffh.BASES)):
        for op in ((0, 2) if q else range(3)):
            C.append(xh.Cond(H, 'history3_undo', timeout=400 if q else 900, path_timeout=30, name='diff/undo-redo/base%d/op%d' % (b, op),
                             extra_pre=['b == %d' % b, 'op == %d' % op] + (['i < 9', 'p %% 2 == %d' % (ctx.seed % 2)] if q else []),
                             bound='base %d: edit, undo, redo, undo, drop last line, restore; every index x pool line' % b,
                             realised='line index, pool index'))
    # two edits: the first edit is fixed per condition, the second ranges over op x distance x pool
    firsts = [(0, 0, 4, 1), (1, 0, 3, 2), (2, 1, 5, 0), (5, 1, 6, 0), (0, 2, 2, 11), (4, 0, 4, 15)] if q else \
        [(b, op, i, p) for b in range(len(diffh.BASES)) for op in range(3) for i in (1,) for p in (1, 16)]
    for b, op1, i1, p1 in firsts:
        C.append(xh.Cond(H, 'history2', timeout=400 if q else 900, path_timeout=30, name='diff/two-edits/base%d/%d-%d-%d' % (b, op1, i1, p1),
                         extra_pre=['b == %d' % b, 'op1 == %d' % op1, 'i1 == %d' % i1, 'p1 == %d' % p1] + (
                             ['p2 %% 2 == %d' % (ctx.seed % 2), 'op2 <= 2'] if q else []),
                         bound='base %d, first edit (%d, line %d, pool %d); second edit: 4 ops x 5 places (within 2 lines or last line) x pool' % (b, op1, i1, p1),
                         realised='second edit selectors (complete)'))
    xh.run_conditions(ctx, C)
