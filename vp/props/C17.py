"""C17: a torn or corrupt cache file is a cache miss, never a failure."""
from .. import xh

LEVEL = 'model_checking'
EXPLANATION = (
    'Same environment model as C16 with fault stubs. CrossHair decides over all paths: (a) the pickle of the key '
    'is torn/garbage - unpickling raises any of 10 exception kinds real corrupt pickles produce, or yields an object '
    'of the wrong type - with arbitrary time stamps that make it look fresh: the parse returns the current tree, the '
    'following save repairs the entry and a new process gets a correct disk hit; (b) one file operation of the '
    'load / save / clean-up path (9 primitives) fails with a realistic OSError (ENOSPC, EACCES, ENOENT, EROFS, EIO; '
    'a crash in the middle of pickle.dump leaves a torn file under the final name): the parse still succeeds and a '
    'later fault-free save repairs the entry; (c) maintenance with arbitrary access / modification / lock times never '
    'removes or damages an entry accessed within the survival period.')

H = 'vp.harness.cachew'


def run(ctx):
    q = ctx.tier == 'quick'
    ctx.encode('parso.cache._load_from_file_system', 'parso.cache._save_to_file_system', 'parso.cache.try_to_save_module',
               'parso.cache.load_module', 'parso.cache._remove_cache_and_update_lock', 'parso.cache.clear_inactive_cache',
               'parso.cache._touch', 'parso.cache._get_cache_directory_path', 'parso.grammar.Grammar.parse')
    ctx.assume('environment and fault stubs of vp/harness/cachew.py (in-memory file system, clock, pickling); a torn file is '
               'modelled as "pickle.load raises one of TORN_KINDS"; open(..., "wb") truncates the final name at once and a '
               'fault during dump leaves it torn', 'two processes are modelled as faults at call boundaries (a file vanishing '
               'between scandir and stat / remove, a half-written file being read), not as threads',
               'atime is maintained by the file system when a pickle is read')
    ctx.not_claimed('real pickle byte streams (every truncation offset of real pickles is a realised dimension the solver '
                    'adds nothing to); failures of pickling itself (RecursionError on very deep trees)')
    C = [
        xh.Cond(H, 'torn_load', timeout=300 if q else 900, path_timeout=30,
                bound='10 unpickling exception kinds + wrong-type object; any time stamps with mtime(file) <= mtime(pickle) <= now; '
                      '2 parse modes', symbolic='exception kind, flags, 3 time stamps'),
        xh.Cond(H, 'cleanup_keeps_active', timeout=300 if q else 900, path_timeout=30,
                bound='two foreign pickles with arbitrary atime/mtime, arbitrary lock time, arbitrary clock and gap (ms)',
                symbolic='7 time values'),
        xh.Cond(H, 'dir_vanishes', timeout=200, path_timeout=30,
                bound='cached parse, cache directory removed from outside, {write, new process, touch}, cached parse',
                symbolic='2 flags, parse mode'),
        xh.Cond(H, 'torn_load', timeout=200, path_timeout=30, twin='only-filenotfound'),
        xh.Cond(H, 'cleanup_keeps_active', timeout=200, path_timeout=30, twin='cleanup-by-mtime'),
    ]
    from ..harness import cachew
    for i, prim in enumerate(cachew.PRIMS):
        C.append(xh.Cond(H, 'op_fault', timeout=200 if q else 600, path_timeout=30, name='cachew.op_fault/' + prim,
                         extra_pre=['prim == %d' % i],
                         bound='one fault at %s x realistic OSError kinds %r x {pickle present/absent, current/stale} x '
                               '{clean-up due or not} x 2 parse modes' % (prim, cachew.REALISTIC[prim]),
                         symbolic='error kind, flags, mode, default-vs-explicit cache location'))
    xh.run_conditions(ctx, C)
