"""C05: trees conform to the grammar; invalid input is confined to error nodes."""
from .. import xh, pipeconds as PC
from ..harness import pipe as P
from . import _pipe

LEVEL = 'model_checking'
EXPLANATION = ('Oracle: an independent reading of the grammar text (vp/ebnf.py); a child stands for symbol X if it is a leaf '
               'matching terminal X, a node of type X, or (unit derivations, computed from the specification side) a node/leaf '
               'that X derives as a single symbol. Conventions encoded once: suite without INDENT/DEDENT, param grouping (a param '
               'node holds exactly one parameter), lambdef_nocond, optional final newline at end of file or before a dedent, an '
               'error node may stand exactly where a block is expected. CrossHair decides "every non-error node is a sentence of '
               'its rule; error nodes/leaves only in file_input / suite / block position" on the pipeline harnesses (symbolic '
               'character in skeleton texts, symbolic spellings incl. keywords, complete label holes).')


def run(ctx):
    q = ctx.tier == 'quick'
    own = ['c05']
    ctx.encode(*_pipe.FUNCS, 'parso.python.tree._create_params', 'parso.python.tree.Function.__init__', 'parso.python.tree.Lambda.__init__')
    ctx.assume(*_pipe.ASSUME)
    ctx.not_claimed(_pipe.OUTSIDE)
    C = []
    ks = [1, 22, 38, 20] if q else list(range(0, len(P.HOLES), 2)) + [31, 33, 35, 37]
    if not q:
        C += PC.text_holes(ctx, own, ks, vis=(4,), timeout=900)
    C += PC.spell_holes(ctx, own, range(1, len(P.SPELL), 2) if q else range(len(P.SPELL)))
    C += PC.label_holes(ctx, own, [P.skel('def f(a, /'), P.skel('def f():'), P.skel('if a:\n  b\nelse:'), 2] if q else range(len(P.SKELS)), vis=(4,) if q else (0, 4, 8))
    C += PC.label_holes(ctx, own, [P.skel('def f[T')], vis=(8,))
    xh.run_conditions(ctx, C)
