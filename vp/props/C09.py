"""C09: tokenizer lossless / position-true / indentation-balanced; prefixes pure and splittable."""
import z3

from .. import rx, toklang, lemmas, xh
from ..harness import tok as TOK

LEVEL = 'model_checking'
EXPLANATION = (
    'Two engines. (Z) z3 decides regular-language lemmas over parso\'s live compiled patterns (sre parse tree '
    '-> z3 regex): prefix purity / agreement of the two lexers (T8), progress (T2), availability of a match or '
    'a character (T1), no line break in single-line token classes (T3), number dispatch (T4). (X) CrossHair '
    'executes the real tokenize()/split_prefix()/_split_illegal_unicode_name()/_close_fstring_if_necessary() '
    'symbolically and checks G_tok g1-g5 (DESIGN section 2) for every string within the stated bound; each '
    'counterexample is replayed on the plain interpreter.')

VERS = [(3, 6), (3, 7), (3, 8), (3, 9), (3, 10), (3, 11), (3, 12), (3, 13), (3, 14)]


def known_comment_ff(tl):
    """language of the known finding `prefix-comment-formfeed` (see known_findings.json)"""
    ch = tl.tr.charset
    notnl = ch(rx._complement([(10, 10), (13, 13)]))
    stuck = ch(rx._complement([(10, 10), (13, 13), (12, 12), (35, 35), (32, 32), (9, 9), (92, 92), (0xfeff, 0xfeff)]))
    pre = z3.Concat(rx.FULL, z3.Re('#'), z3.Star(notnl), z3.Re('\f'), z3.Star(notnl))
    return rx.union([z3.Concat(pre, stuck, rx.FULL), z3.Concat(pre, z3.Re('\\'), notnl, rx.FULL),
                     z3.Concat(pre, z3.Re('\\'))])


def z_lemmas(ctx, versions):
    from parso.python import prefix as P
    tiling, ptr, spacing, parts = toklang.prefix_tiling_language()
    lemmas.validate(ctx, 'prefix._regex', P._regex, z3.Concat(spacing, rx.union(parts + [rx.EPS])))
    seen = {}
    for v in versions:
        tl = toklang.TokLang(v)
        key = tl.tc.pseudo_token.pattern
        tag = '%d.%d' % v
        if key in seen:
            ctx.notes.append('token collection of %s has the same PseudoToken pattern as %s (lemmas shared)' % (tag, seen[key]))
            continue
        seen[key] = tag
        if not tl.name_is_group3:
            ctx.error('T0:' + tag, 'the Name alternative is not capture group 3 (the tokenizer dispatches on group(3))')
        uni = tl.tr.uniform_above and ptr.uniform_above
        lemmas.validate(ctx, 'whitespace ' + tag, tl.tc.whitespace, tl.W)
        # T8: every prefix the tokenizer can assemble is tiled by the prefix lexer
        P_tok = tl.prefix_language()
        broken = z3.Concat(z3.Star(z3.Concat(spacing, rx.union(parts[1:]))), spacing)  # twin: first part type removed
        lemmas.subset(ctx, 'T8-prefix-two-lexers:' + tag, P_tok, tiling, concrete='t8_prefix_split',
                      known=('prefix-comment-formfeed', known_comment_ff(tl)), broken_b=broken, uniform=uni)
        # T1: on an all-whitespace remainder the pseudo token always matches (so `line[match.end()]` exists otherwise)
        lemmas.subset(ctx, 'T1-match-or-char:' + tag, tl.W, tl.pseudo_prefix, concrete='t1_pseudomatch_or_char',
                      concrete_args=(v,), broken_b=tl.token_nonend, uniform=uni)
        # T2: progress - no alternative except \Z matches the empty string
        lemmas.subset(ctx, 'T2-progress:' + tag, z3.Intersect(tl.token_nonend, rx.EPS) if False else tl.token_nonend,
                      z3.Concat(rx.ANYCHAR, rx.FULL), concrete=None, broken_b=z3.Concat(z3.Re('#'), rx.FULL), uniform=uni)
        # T3: single-line token classes contain no line break (except the newline operators themselves)
        single = rx.union([tl.named['Name'], tl.named['Number'], tl.named['Funny']])
        lemmas.subset(ctx, 'T3-no-linebreak-in-name-number-op:' + tag, z3.Intersect(single, tl.HASNL), tl.NL,
                      concrete='t3_linebreak', concrete_args=(v,), broken_b=z3.Re('\n'), uniform=uni)
        # T4: a digit always starts a Number match; '.'-initial tokens other than '.' / '...' are Numbers
        lemmas.subset(ctx, 'T4-digit-starts-number:' + tag, z3.Concat(z3.Range('0', '9'), rx.FULL),
                      z3.Concat(tl.named['Number'], rx.FULL), concrete='t4_digit_number', concrete_args=(v,),
                      broken_b=z3.Concat(z3.Range('1', '9'), rx.FULL), uniform=uni)
        others = rx.union([tl.named['Funny'], tl.named['ContStr'], tl.named['Name'],
                           tl.extras['Comment'], tl.extras['Cont'], tl.extras['Triple']] +
                          ([tl.extras['FStart']] if 'FStart' in tl.extras else []))
        lemmas.subset(ctx, 'T4b-dot-dispatch:' + tag, z3.Intersect(others, z3.Concat(z3.Re('.'), rx.FULL)),
                      rx.union([z3.Re('.'), z3.Re('...')]), broken_b=z3.Re('.'), uniform=uni)


def redos_lemmas(ctx, versions=((3, 6), (3, 10))):
    """T9: in the tokenizer's patterns no repetition body r is ambiguous in the sense r . r+ intersects r (a string
    that is one iteration and also several): that ambiguity is what makes a backtracking matcher take exponential
    time on a failing match (long digit runs, long comments ...), i.e. the tokenizer would not terminate in practice"""
    from parso.python import tokenize as PT
    seen = set()
    # every compiled pattern the tokenizer module defines at module level (robust against renames)
    import re as _re
    pats = [(val, nm) for nm, val in sorted(vars(PT).items()) if isinstance(val, _re.Pattern)]
    for v in versions:
        tc = PT._get_token_collection(v)
        pats.append((tc.pseudo_token, 'PseudoToken %d.%d' % v))
        for k, ep in sorted(tc.endpats.items()):
            if k in ("'", '"', "'''", '"""'):
                pats.append((ep, 'endpat %r %d.%d' % ((k,) + v)))
    import time
    for pat, name in pats:
        if pat.pattern in seen:
            continue
        seen.add(pat.pattern)
        tr = rx.Translator(pat.flags)
        bad = []
        unknown = []
        t0 = time.time()
        n = 0
        for where, body in rx.unbounded_repeats(list(rx.parse(pat))):
            if rx.has_lookaround(body) or rx._has_at(body):
                continue
            r = tr.seq(body)
            n += 1
            res, m, dt, _ = rx.check([z3.InRe(rx.W, z3.Intersect(z3.Concat(r, z3.Plus(r)), r)), z3.Length(rx.W) > 0], 20000)
            if res == 'sat':
                bad.append((where, rx.witness(m)))
            elif res != 'unsat':
                unknown.append(where)
        dt = time.time() - t0
        if bad:
            w = bad[0][1]
            path = ctx.write_replay('T9-' + name, lemmas.replay_source('t9_backtracking', (pat.pattern, pat.flags, w)))
            ok, out = lemmas.run_replay(path)
            if ok:
                ctx.add('T9-unambiguous-repetition:' + name, 'z3', 'violated', dt, detail='repetition %s: %r is one iteration and several' % bad[0])
                ctx.violation('T9-unambiguous-repetition:' + name, path, 'ambiguous repetition body (witness %r): matching time doubles per repetition: %s' % (w, out[-200:]))
            else:
                ctx.add('T9-unambiguous-repetition:' + name, 'z3', 'inconclusive', dt,
                        detail='ambiguous repetition body (witness %r) but no measurable blow-up: %s' % (w, out[-120:]))
        elif unknown:
            ctx.add('T9-unambiguous-repetition:' + name, 'z3', 'inconclusive', dt, detail='z3 unknown at %r' % unknown[:3])
        else:
            ctx.add('T9-unambiguous-repetition:' + name, 'z3', 'holds', dt, nonvacuous=n > 0, kind='z3-regex-lemma',
                    detail='%d unbounded repetitions, none has a body r with (r r+) intersecting r' % n,
                    bound='strings of unbounded length; necessary condition for exponential backtracking only')


def conditions(ctx, clauses='g1,g2,g3,g4,g5', focus='C09'):
    """focus: which property's budget is used (C09 = the tokenizer property, gets the most)"""
    env = {'VP_CLAUSES': clauses}
    q = ctx.tier == 'quick'
    C = []
    T = 'vp.harness.tok'
    V = TOK.VERSIONS
    U1 = 'every string of length 1 over all of Unicode'
    for vi in ([0, 4] if q else [0, 2, 4, 6, 8]):
        C.append(xh.Cond(T, 'tok_chars1', timeout=200, path_timeout=60, env=env, name='tok/len=1/unicode/v%d.%d' % V[vi],
                         extra_pre=['vi == %d' % vi], bound=U1, symbolic='code point of the character'))
    firsts = "'f\\#" if q else TOK.ALPHA
    if focus != 'C09' and q:
        firsts = "'\\"
    for ch in firsts:
        for vi in ([4] if q else [0, 4]):
            C.append(xh.Cond(T, 'tok_chars2', timeout=300 if q else 900, path_timeout=60, env=env,
                             name='tok/len=2/first=%r/second=unicode/v%d.%d' % ((ch,) + V[vi]),
                             extra_pre=['vi == %d' % vi, 'c1 == %d' % ord(ch)],
                             bound='every 2-character string whose first character is %r and second any Unicode code point' % ch,
                             symbolic='code point of the second character'))
    if not q:
        for a in TOK.ALPHA:
            for b in TOK.ALPHA:
                C.append(xh.Cond(T, 'tok_chars3', timeout=300, path_timeout=60, env=env,
                                 name='tok/len=3/alpha18/first=%r,%r/v3.10' % (a, b),
                                 extra_pre=['vi == 4', 'c1 == %d' % ord(a), 'c2 == %d' % ord(b)],
                                 bound='every 3-character string over the 18-char alphabet (partitioned by the first two)',
                                 symbolic='third character (18 values)', realised='first two characters (complete over the alphabet)'))
    holes = list(range(len(TOK.HOLES)))
    if q:
        n = 6 if focus == 'C09' else 3
        start = (ctx.seed * n) % len(holes)
        holes = sorted(set(([0, 1, 24, 25, 26, 27, 28, 29, 30, 31, 32, 33] if focus == 'C09' else []) + [holes[(start + i * 3) % len(holes)] for i in range(n - 3)]))
    for k in holes:
        pre, post = TOK.HOLES[k]
        for vi in ([4] if q else [0, 4]):
            C.append(xh.Cond(T, 'tok_hole_c', timeout=300 if q else 900, path_timeout=60, env=env,
                             name='tok/hole%d(%r+c+%r)/v%d.%d' % ((k, pre, post) + V[vi]),
                             extra_pre=['k == %d' % k, 'vi == %d' % vi],
                             bound='skeleton %r + one character over all of Unicode + %r' % (pre, post),
                             symbolic='code point of the hole character'))
    for col in (() if q else (0, 3)):
        C.append(xh.Cond(T, 'tok_start_c', timeout=600, path_timeout=60, env=env, name='tok/start_pos/col=%d' % col,
                         extra_pre=['col == %d' % col],
                         bound='tokenize(c + "x\\n", start_pos=(L, %d)) for every Unicode c and every line L >= 1' % col,
                         symbolic='code point, start line'))
    return C


def unit_conditions(ctx):
    q = ctx.tier == 'quick'
    U = 'vp.harness.units'
    C = []
    C.append(xh.Cond(U, 'prefix_parts', timeout=150 if q else 900, path_timeout=30, extra_pre=['len(p) <= 2'] if q else [],
                     bound='prefix len<=%d over {space,tab,FF,#,a,backslash,LF,CR,BOM}, any start line/col' % (2 if q else 3),
                     symbolic='prefix string, line, column, first-leaf flag'))
    C.append(xh.Cond(U, 'split_name', timeout=200 if q else 1200, path_timeout=30, extra_pre=['len(tok) <= 2'] if q else [],
                     bound='name-like token len<=%d over all of Unicode' % (2 if q else 3), symbolic='token text, column, prefix'))
    C.append(xh.Cond(U, 'prefix_start_after_first_indent_error', timeout=150, path_timeout=30,
                     bound='leading zero-width indentation error leaf, prefix of length <=3 over all of Unicode', symbolic='prefix, token type'))
    C.append(xh.Cond(U, 'close_fstring', timeout=150 if q else 900, path_timeout=30, extra_pre=['len(rest) <= 2'] if q else [],
                     bound='rest of line len<=%d over all of Unicode, 4 quote kinds' % (2 if q else 3),
                     symbolic='rest, column, pending prefix'))
    # built-in broken twins (must be refuted)
    C.append(xh.Cond('vp.harness.tok', 'tok_chars2', timeout=120, path_timeout=30, twin='comment-drops-prefix',
                     extra_pre=['vi == 4', 'c1 == 32']))
    C.append(xh.Cond(U, 'prefix_parts', timeout=120, path_timeout=30, twin='newline-column-off', extra_pre=['len(p) <= 2']))
    return C


def run(ctx):
    ctx.encode('parso.python.tokenize.tokenize', 'parso.python.tokenize.tokenize_lines',
               'parso.python.tokenize._create_token_collection (PseudoToken, whitespace, sub-patterns)',
               'parso.python.tokenize._split_illegal_unicode_name', 'parso.python.tokenize._close_fstring_if_necessary',
               'parso.python.tokenize._find_fstring_string', 'parso.python.prefix.split_prefix',
               'parso.python.prefix.PrefixPart.end_pos', 'parso.python.prefix._regex', 'parso.utils.split_lines')
    ctx.assume('trusted: sre->z3 translator vp/rx.py (validated against re on every run), reference walk and purity '
               'predicate in vp/oracle.py, CrossHair 0.0.110 + vp/chplugin.py (symbolic str.isidentifier, relib fixes)',
               'existence-of-match semantics for regex lemmas (exact for a backtracking engine)')
    ctx.not_claimed('fully symbolic texts longer than the stated lengths; holes wider than stated; f-string nesting '
                    'beyond the listed skeletons')
    z_lemmas(ctx, VERS)
    redos_lemmas(ctx)
    xh.run_conditions(ctx, unit_conditions(ctx) + conditions(ctx))
