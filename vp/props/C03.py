"""C03: positions are true."""
from .. import xh, pipeconds as PC
from ..harness import pipe as P
from . import _pipe

LEVEL = 'model_checking'
EXPLANATION = ('Unit laws decided by CrossHair for every value of length <=3 over all of Unicode and every start line/column: '
               'Leaf.end_pos (all leaf classes that may contain line breaks), prefix start of first leaves and of leaves after '
               'zero-width indentation error leaves, against a reference walk that counts only \\n, \\r\\n, \\r and gives a leading BOM '
               'zero width. Pipeline conditions (symbolic character in skeleton texts through tokenizer and parser, symbolic '
               'spellings, label holes): walking the input through every leaf\'s prefix and value reproduces every start/end, '
               'node positions equal first/last leaf, module end = end of input.')


def run(ctx):
    q = ctx.tier == 'quick'
    own = ['c03']
    ctx.encode(*_pipe.FUNCS, 'parso.tree.Leaf.end_pos', 'parso.python.tree._LeafWithoutNewlines.end_pos',
               'parso.tree.Leaf.get_start_pos_of_prefix', 'parso.python.tree.PythonLeaf.get_start_pos_of_prefix',
               'parso.tree.BaseNode.start_pos/end_pos')
    ctx.assume(*_pipe.ASSUME)
    ctx.not_claimed(_pipe.OUTSIDE)
    U = 'vp.harness.units'
    C = [xh.Cond(U, f, timeout=200, path_timeout=30, bound=b, symbolic=s) for f, b, s in [
        ('leaf_end_pos', 'Leaf value of length <=3 over all of Unicode, any start line >= 1 / column >= 0', 'value, line, column'),
        ('pyleaf_end_pos', 'String / FStringString / error leaf / Newline / EndMarker values of length <=3 over Unicode', 'value, line, column, class'),
        ('first_leaf_prefix_start', 'first leaf with a prefix of length <=3 over all of Unicode', 'prefix'),
        ('prefix_start_after_first_indent_error', 'leading zero-width INDENT/ERROR_DEDENT error leaf, prefix of length <=3 over all of Unicode', 'prefix, token type'),
        ('prefix_start_after_error_leaf', 'leaf after a zero-width INDENT/DEDENT/ERROR_DEDENT (or a real) error leaf; previous value len<=2', 'value, position, token type'),
    ]]
    C.append(xh.Cond(U, 'leaf_end_pos', timeout=120, path_timeout=30, twin='end-pos-ignores-cr'))
    ks = [13, 24, 3] if q else list(range(0, len(P.HOLES), 2)) + [31, 33, 35, 37]
    C += PC.text_holes(ctx, own, ks, vis=(4,), timeout=900)
    C += PC.spell_holes(ctx, own, [2, 5] if q else range(len(P.SPELL)))
    C += PC.label_holes(ctx, own, [P.skel('# h'), P.skel("f'''"), P.skel('f"a')] + _pipe.pick(ctx, 1, len(P.SKELS), 5) if q else range(len(P.SKELS)), vis=(4,) if q else (0, 4, 8))
    xh.run_conditions(ctx, C)
