"""C16: the parse cache is transparent (never a stale or foreign tree)."""
from .. import xh

LEVEL = 'model_checking'
EXPLANATION = (
    'CrossHair executes the real Grammar.parse + parso/cache.py against an in-memory environment (file system '
    'with mtime/atime, clock in symbolic milliseconds, pickling, stub parser returning "tree of (grammar, text)"). '
    'Two kinds of conditions, each decided over all paths: (1) one step from an ARBITRARY cache state that satisfies '
    'the representation invariant "every memory/disk entry holds the current content of its own key or is detectably '
    'older than the file" - any operation (write, parse in 4 modes, new process, delete cache dir, touch) must serve '
    'the current tree and re-establish the invariant (inductive, covers histories of any length if the invariant is '
    'right); (2) bounded histories from the empty cache (3-4 steps, 8 operations, symbolic time gaps; two keys '
    'differing in file / grammar / cache dir).')

H = 'vp.harness.cachew'


def conditions(ctx):
    q = ctx.tier == 'quick'
    C = [
        xh.Cond(H, 'step_same_key', timeout=200 if q else 900, path_timeout=30,
                bound='one arbitrary operation (8 kinds) from an arbitrary valid cache state of one key: optional memory '
                      'entry / pickle, each current or stale, all time stamps arbitrary non-negative ms',
                symbolic='operation, 7 time stamps (unbounded ints), presence/staleness flags'),
        xh.Cond(H, 'step_other_key', timeout=300 if q else 900, path_timeout=30,
                bound='parse of key K0 while the cache holds arbitrary valid entries of a key differing in exactly one of '
                      'file / grammar / cache directory',
                symbolic='differing dimension, parse mode, 5 time stamps, presence/staleness flags'),
        xh.Cond(H, 'step_eviction', timeout=200, path_timeout=30,
                bound='size-triggered eviction with the trigger lowered to 2 entries; arbitrary last-used / change times',
                symbolic='4 time stamps, clock, time gap, parse mode'),
        xh.Cond(H, 'history3', timeout=300 if q else 900, path_timeout=30,
                bound='all histories of 3 steps over 8 operations after one cached parse; one key; every time gap an '
                      'arbitrary non-negative number of ms', symbolic='3 operation selectors, 3 time gaps'),
        xh.Cond(H, 'history_inflight', timeout=200, path_timeout=30,
                bound='3 steps over {write, cached parse, new process} where a write may land between read() and '
                      'get_last_modified() of a parse', symbolic='3 selectors, 2 in-flight flags, 2 time gaps'),
    ]
    for d, nm in enumerate(('file', 'grammar', 'cache-dir')):
        C.append(xh.Cond(H, 'history_keys', timeout=300 if q else 900, path_timeout=30, name='cachew.history_keys/' + nm,
                         extra_pre=['dim == %d' % d],
                         bound='all histories of 4 steps over {write, cached parse, new process} x two keys differing in ' + nm,
                         symbolic='4 operation selectors, 4 key selectors'))
    if not q:
        C.append(xh.Cond(H, 'history4', timeout=3000, path_timeout=30,
                         bound='all histories of 4 steps over 8 operations after one cached parse, one symbolic time gap',
                         symbolic='4 operation selectors, 1 time gap'))
    # broken twins: must be refuted
    C.append(xh.Cond(H, 'step_same_key', timeout=200, path_timeout=30, twin='mem-compare-strict'))
    C.append(xh.Cond(H, 'step_other_key', timeout=200, path_timeout=30, twin='key-without-grammar'))
    return C


def run(ctx):
    ctx.encode('parso.grammar.Grammar.parse (cache / diff_cache branches)', 'parso.cache.load_module',
               'parso.cache._load_from_file_system', 'parso.cache._set_cache_item', 'parso.cache.try_to_save_module',
               'parso.cache._save_to_file_system', 'parso.cache._get_hashed_path', 'parso.cache._get_cache_directory_path',
               'parso.cache._NodeCacheItem', 'parso.cache._remove_cache_and_update_lock', 'parso.cache.clear_inactive_cache',
               'parso.cache._touch')
    ctx.assume('environment stubs (vp/harness/cachew.py): os / open / pickle / time as seen from parso.cache are an '
               'in-memory world; FileIO subclass for source files; cache directories are FakePath objects',
               'the parser proper is a stub returning "tree of (grammar id, text)"; the diff parser is a stub that updates '
               'the cached tree in place and poisons it when the cached lines do not belong to the cached tree',
               'every write to a source file strictly advances the clock (a newer modification time); one clock for file '
               'and pickle time stamps; time in integer milliseconds',
               'the representation invariant in cachew.invariant() is the induction hypothesis')
    ctx.not_claimed('OS-level concurrency of two processes inside one file operation; clock skew between file systems; '
                    'histories longer than 4 steps that are not covered by the inductive step (i.e. if the invariant '
                    'were too weak)')
    xh.run_conditions(ctx, conditions(ctx))
