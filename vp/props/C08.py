"""C08: the parser generator is faithful to the grammar text and truly LL(1)."""
import os
import subprocess
import sys
import time
from concurrent.futures import ProcessPoolExecutor

from .. import gramjobs
from ..core import HOLDS, VIOLATED, INCONCLUSIVE, ERROR, PLAIN_PY, REPO, ROOT

LEVEL = 'model_checking'
EXPLANATION = (
    'Per shipped grammar file and per synthetic grammar: z3 decides, for every rule, the language '
    'equality L(generated DFA) = L(right-hand side as read independently from the text) over sentences '
    'of unbounded length (regular-language decision, DFA turned into a regular expression by state '
    'elimination); FIRST is the solver\'s unique solution of the begins-with equations (acyclicity by a '
    'rank-function query); one propositional query per grammar compares domain / next_dfa / dfa_pushes of '
    'every (state, token) pair with "terminal arcs + FIRST of nonterminal arcs"; a second one decides '
    'LL(1)-ness, which must coincide with generate_grammar accepting or raising.')


def handle_results(ctx, text_of, results, check_replay=True):
    for r in results:
        name, v = r['name'], r['verdict']
        if v == VIOLATED:
            wit = r.get('witness')
            text = text_of
            path = ctx.write_replay(name, gramjobs.grammar_replay_source(text, wit))
            env = dict(os.environ, PYTHONPATH=REPO + os.pathsep + ROOT)
            p = subprocess.run([PLAIN_PY, path], env=env, capture_output=True, text=True)
            if p.returncode == 1 and "REPRODUCED" in p.stdout:
                ctx.add(name, 'z3', VIOLATED, r['seconds'], detail=r['detail'])
                ctx.violation(name, path, r['detail'] + ' | replay: ' + p.stdout.strip()[-300:])
            else:
                ctx.add(name, 'z3', ERROR, r['seconds'], detail=r['detail'])
                ctx.error(name, 'counterexample did not replay (exit %d): %s | %s | %s' % (
                    p.returncode, r['detail'], p.stdout[-300:], p.stderr[-300:]))
        elif v == 'error':
            ctx.add(name, 'z3', ERROR, r['seconds'], detail=r['detail'])
            ctx.error(name, r['detail'])
        else:
            ctx.add(name, 'z3', v, r['seconds'], detail=r['detail'], nonvacuous=r.get('nonvacuous', False),
                    bound=r.get('bound', ''), kind=r.get('kind', 'z3-query'))


def run(ctx, want_follow=False):
    ctx.encode('parso.pgen2.generator.generate_grammar', 'parso.pgen2.generator._make_dfas',
               'parso.pgen2.generator._simplify_dfas', 'parso.pgen2.generator.DFAState.__eq__',
               'parso.pgen2.generator._calculate_tree_traversal', 'parso.pgen2.generator._calculate_first_plans',
               'parso.pgen2.generator._make_transition', 'parso.pgen2.grammar_parser.GrammarParser')
    ctx.assume('trusted: the EBNF reader vp/zgrammar.py (read_rules, Rhs), z3 5.1 sequence/regex solver, '
               'z3 Datalog engine; the implementation side is read from the live objects generate_grammar returns',
               'the implementation DFAs are encoded by state elimination of their arcs/is_final (vp/zgrammar.dfa_to_re)')
    ctx.bound('sentences: unbounded; rules/states/tokens: all of every shipped grammar file present in the tree')
    files = gramjobs.shipped_grammar_files()
    n_synth = 160 if ctx.tier == 'quick' else 2400
    chunk = 10 if ctx.tier == 'quick' else 50
    ctx.bound('systematic families (complete): all 20640 grammars r0: <EBNF term with <= 3 operators over a, b, r0 (self), r1>; r1: b a | a, and '
              'all 870 grammars r0: <term with <= 2 operators over a, b, r1>; r1: r0 b | a  resp.  a [r0] b (indirect recursion)')
    ctx.bound('synthetic grammars: %d pseudo-random well-formed EBNF grammars (seed %d), 1-3 rules, <=6 operators '
              'per right-hand side over |,[],(),*,+, terminals NAME NUMBER STRING and three strings; the family is '
              'sampled, the sentence/state/token quantifiers inside each member are the solver\'s' % (n_synth, ctx.seed))
    ctx.not_claimed('synthetic grammars outside the generated family; grammar texts the EBNF reader rejects')
    with ProcessPoolExecutor(max_workers=16) as ex:
        fjobs = [(p, ex.submit(gramjobs.job_file, p, want_follow)) for p in files]
        tjobs = [(t, ex.submit(gramjobs.job_twin, files[len(files) // 2], t)) for t in gramjobs.TWINS]
        sjobs = [ex.submit(gramjobs.job_synth, ctx.seed, lo, min(lo + chunk, n_synth))
                 for lo in range(0, n_synth, chunk)]
        n_sys = 20640 + 870
        step = 430
        yjobs = [(lo, ex.submit(gramjobs.job_synth, ctx.seed, lo, lo + step, True)) for lo in range(0, n_sys, step)]
        for p, j in fjobs:
            out = j.result()
            with open(p) as f:
                text = f.read()
            handle_results(ctx, text, out['results'])
            if out['sample']:
                ctx.sample(out['sample'])
        for t, j in tjobs:
            out = j.result()
            if out['noticed']:
                ctx.add('twin:%s' % t, 'z3', HOLDS, out['seconds'], nonvacuous=True, kind='broken-twin',
                        detail='in-memory corruption of the tables is refuted: ' + out['detail'][:150])
            else:
                ctx.add('twin:%s' % t, 'z3', ERROR, out['seconds'], detail=out['detail'])
                ctx.error('twin:%s' % t, 'built-in broken twin was not noticed: ' + out['detail'])
        acc = rej = 0
        for j in sjobs:
            for g in j.result():
                handle_results(ctx, g['text'], g['results'])
                if g.get('accepted'):
                    acc += 1
                else:
                    rej += 1
                if g['index'] % 37 == 0:
                    ctx.sample({'synthetic': g['text'], 'accepted': g.get('accepted')})
        # systematic family: every term with <= 3 operators over 'a', 'b', self reference, second rule
        for lo, j in yjobs:
            out = j.result()
            bad = [r for g in out for r in g['results'] if r['verdict'] not in ('holds',)]
            secs = sum(r['seconds'] for g in out for r in g['results'])
            nobl = sum(len(g['results']) for g in out)
            a = sum(1 for g in out if g.get('accepted'))
            if bad:
                for g in out:
                    handle_results(ctx, g['text'], [r for r in g['results'] if r['verdict'] != 'holds'])
            ctx.add('systematic-family[%d..%d)' % (lo, lo + len(out)), 'z3', HOLDS if not bad else VIOLATED, secs, nonvacuous=nobl > 0,
                    kind='z3-query-batch', detail='%d grammars "r0: <term, <=3 operators over a, b, r0, r1>; r1: b a | a": %d accepted, %d '
                    'rejected, %d solver obligations (language equality, LL(1) verdict = accept/raise, tables) all discharged' % (
                        len(out), a, len(out) - a, nobl),
                    bound='the complete families of 20640 + 870 two-rule grammars; sentences unbounded')
            if out and lo % 4300 == 0:
                ctx.sample({'systematic': out[len(out) // 2]['text'], 'accepted': out[len(out) // 2].get('accepted')})
        ctx.notes.append('synthetic grammars: %d accepted as LL(1), %d rejected; both verdicts agreed with the '
                         'specification side in every case listed as holds' % (acc, rej))
        if acc < 5 or rej < 5:
            ctx.error('synthetic-family', 'degenerate family: accepted=%d rejected=%d' % (acc, rej))
