"""C19: trees survive serialisation; refactoring is an exact text splice."""
from .. import xh, pipeconds as PC
from ..harness import pipe as P
from . import _pipe

LEVEL = 'model_checking'
EXPLANATION = ('Refactoring: CrossHair decides, for symbolic replacement strings (any Unicode characters, possibly empty) and every '
               'pair of nodes of three concrete trees (indices realised), that Grammar.refactor returns the exact splice of the '
               'replaced spans (prefix included) and the unchanged code for the empty map. Serialisation: eval(dump(indent)) for 4 '
               'indent styles and pickle round trips (2 protocols) reproduce types, values, prefixes, positions, parent links and '
               'code for every tree of the complete label-hole family (realised: eval/pickle realise their input).')


def run(ctx):
    q = ctx.tier == 'quick'
    own = ['c19']
    ctx.encode('parso.tree.NodeOrLeaf.dump', 'parso.tree.Leaf/TypedLeaf/ErrorLeaf/BaseNode/Node/ErrorNode.__init__',
               'parso.python.tree.Function.__init__', 'parso.python.tree.Lambda.__init__', 'parso.python.tree._create_params',
               'parso.python.tree.Param.__init__', 'parso.normalizer.RefactoringNormalizer', 'parso.grammar.Grammar.refactor',
               '__slots__ based pickling of all node classes')
    ctx.assume(*_pipe.ASSUME)
    ctx.not_claimed(_pipe.OUTSIDE + '; symbolic strings through eval/pickle (C code: realised)')
    C = []
    for t in range(3):
        C.append(xh.Cond('vp.harness.pipe', 'pipe_refactor', timeout=300 if q else 1200, path_timeout=60, env={'VP_VERSIONS': '0,4,8'},
                         name='pipe/refactor/tree%d' % t, extra_pre=['t == %d' % t] + (['i < 12', 'j < 12'] if q else []),
                         bound='tree %d: node pairs (%s), replacement strings: any Unicode character and any Unicode character or empty'
                               % (t, 'first 12 nodes' if q else 'all nodes'), symbolic='two code points, emptiness flag',
                         realised='two node indices'))
    C += PC.label_holes(ctx, own, [P.skel('def f(a, /'), 1, 5] if q else range(len(P.SKELS)), vis=(4,) if q else (0, 4, 8))
    xh.run_conditions(ctx, C)
