"""C11: tree navigation and position lookup are consistent with leaf order."""
from .. import xh
from ..harness import nav

LEVEL = 'model_checking'
EXPLANATION = (
    'CrossHair executes the real BaseNode.get_leaf_for_position / get_name_of_position for EVERY integer position '
    '(line, column) - symbolic, unbounded - on each tree of a family (error nodes, zero-width INDENT/ERROR_DEDENT '
    'error leaves, touching tokens, BOM, multi-line tokens) and compares with the linear specification "first leaf '
    'in order whose end >= position"; the same on a synthetic 3-level tree whose six leaves have symbolic lines, '
    'columns, gaps and widths (zero-width and touching leaves included). Navigation laws (next/previous leaf and '
    'sibling are inverses enumerating the in-order sequence, parent links, nearest ancestor) are decided for every '
    'leaf / node index of the family (index realised, complete).')


def run(ctx):
    q = ctx.tier == 'quick'
    ctx.encode('parso.tree.BaseNode.get_leaf_for_position', 'parso.python.tree.PythonMixin.get_name_of_position',
               'parso.tree.NodeOrLeaf.get_next_leaf', 'parso.tree.NodeOrLeaf.get_previous_leaf',
               'parso.tree.NodeOrLeaf.get_next_sibling', 'parso.tree.NodeOrLeaf.get_previous_sibling',
               'parso.tree.NodeOrLeaf.search_ancestor', 'parso.tree.NodeOrLeaf.get_root_node',
               'parso.tree.BaseNode.get_first_leaf/get_last_leaf', 'parso.tree.Leaf.end_pos', 'parso.tree.BaseNode.__init__')
    ctx.assume('the trees of the family are produced by the real parser at import time (concrete); leaf order = in-order traversal '
               'of children lists (vp/treeoracle.leaves)')
    ctx.not_claimed('trees outside the family; the synthetic tree has a fixed shape (6 leaves, 3 levels)')
    C = []
    N = 'vp.harness.nav'
    for t in range(len(nav.TREES)):
        C.append(xh.Cond(N, 'lookup', timeout=200, path_timeout=30, name='nav.lookup/tree%d' % t, extra_pre=['t == %d' % t],
                         bound='tree of %r: every integer (line, column), both include_prefixes values' % nav.TEXTS[t][:40],
                         symbolic='line, column (unbounded ints), flag'))
    for t in range(len(nav.TREES)):
        C.append(xh.Cond(N, 'nav_leaf', timeout=200, path_timeout=30, name='nav.leaf-laws/tree%d' % t, extra_pre=['t == %d' % t],
                         bound='every leaf of the tree', realised='leaf index'))
        C.append(xh.Cond(N, 'nav_node', timeout=200, path_timeout=30, name='nav.node-laws/tree%d' % t, extra_pre=['t == %d' % t],
                         bound='every node of the tree', realised='node index'))
    C.append(xh.Cond(N, 'synthetic', timeout=300 if q else 2400, path_timeout=30,
                     extra_pre=['n1 == 1', 'n3 == 0', 'n4 == 1', 'n5 == 2'] if q else [],
                     bound='6 leaves in a fixed 3-level shape; start line/column, gaps (unbounded), widths 0..2, two optional '
                           'line breaks; every integer query position', symbolic='14 ints, 3 flags'))
    C.append(xh.Cond(N, 'lookup', timeout=120, path_timeout=30, twin='bisect-strict', extra_pre=['t == 3']))
    C.append(xh.Cond(N, 'nav_leaf', timeout=120, path_timeout=30, twin='next-leaf-first-equal', extra_pre=['t == 1']))
    xh.run_conditions(ctx, C)
