"""Common run() for the properties decided on the pipeline harnesses."""
from .. import xh, pipeconds as PC
from ..harness import pipe as P

FUNCS = ['parso.grammar.Grammar.parse', 'parso.python.tokenize.tokenize_lines', 'parso.parser.BaseParser.parse/_add_token/_pop',
         'parso.python.parser.Parser.error_recovery/_stack_removal/_recovery_tokenize/convert_node/convert_leaf',
         'parso.python.tree (node classes, _create_params)', 'parso.tree.Leaf/BaseNode (get_code, positions)']
ASSUME = ['trusted: tree oracles in vp/treeoracle.py (round trip, well-formedness, reference walk, grammar conformance via an '
          'independent EBNF reader, strict-vs-recovering comparison), validated on the repository test corpus '
          '(tools/validate_oracles.py); CrossHair 0.0.110 + vp/chplugin.py',
          'token-level spelling holes assume G_tok (the tokenizer obligations decided under C09): a NAME token is an identifier',
          'label holes are realised dimensions: the solver enumerates them completely, parso then runs natively']
OUTSIDE = ('texts that are not skeleton + hole of the listed families; holes wider than one character (two for ASCII '
           'spellings); nesting depth near 100; versions other than 3.6 / 3.10 / 3.14 in the quick tier')


def pick(ctx, n, total, stride=3):
    start = (ctx.seed * n) % total
    return [(start + i * stride) % total for i in range(n)]
