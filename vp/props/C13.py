"""C13: error listing is total, coherent with the tree, pure and deterministic."""
from .. import xh, pipeconds as PC
from ..harness import pipe as P
from . import _pipe

LEVEL = 'model_checking'
EXPLANATION = ('Post-condition on grammar.iter_errors(module) in the pipeline harnesses: no exception; tree fingerprint unchanged; '
               'codes in {901, 903} with matching message prefix; positions inside the file with non-negative columns; at most one '
               'issue per line; every error leaf\'s line and, for every outermost error node, its line or the line of the following '
               'token carries an issue; a second call returns an equal list. Decided by CrossHair over a symbolic character in '
               'skeleton texts, spellings over a small adversarial alphabet (names are hashed by the rules: realised), and complete '
               'label holes (realised).')


def run(ctx):
    q = ctx.tier == 'quick'
    own = ['c13']
    ctx.encode(*_pipe.FUNCS, 'parso.grammar.Grammar.iter_errors', 'parso.python.errors.ErrorFinder (visit, visit_leaf, add_issue, finalize)',
               'parso.python.errors rule classes', 'parso.normalizer.Normalizer.walk/visit', 'parso.normalizer.Issue',
               'parso.python.prefix.split_prefix')
    ctx.assume(*_pipe.ASSUME)
    ctx.not_claimed(_pipe.OUTSIDE)
    C = []
    ks = [34, 37, 12] if q else [34, 37, 12, 3, 25]
    if not q:
        C += PC.text_holes(ctx, own, ks, clauses='c13', timeout=600 if q else 1200)
    C += PC.spell_holes(ctx, own, [0, 10] if q else range(len(P.SPELL)), clauses='c13', alpha='lOIaifn_')
    C += PC.label_holes(ctx, own, [P.skel('if x:\n# c'), P.skel('if x:\r'), P.skel('def f():\n    x = 1; global'), P.skel('f(a, k=1')] if q else range(len(P.SKELS)), vis=(4,) if q else (0, 4, 8))
    xh.run_conditions(ctx, C)
