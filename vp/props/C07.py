"""C07: strict and recovering parsers agree on what is a syntax error."""
from .. import xh, pipeconds as PC
from ..harness import pipe as P
from . import _pipe

LEVEL = 'model_checking'
EXPLANATION = ('On every pipeline harness (symbolic character in skeleton texts through Grammar.parse in both modes, symbolic '
               'spellings on token streams fed to both parsers, complete label holes) CrossHair decides: strict parsing raises '
               'ParserSyntaxError iff the recovered tree has an error node/leaf; without error the two trees are structurally equal; '
               'with error the reported leaf is the earliest error of the recovering parser (first error leaf or leaf following an '
               'error node; a zero-width INDENT/DEDENT token counts as sitting at the start of the next token).')


def run(ctx):
    q = ctx.tier == 'quick'
    own = ['c07']
    ctx.encode(*_pipe.FUNCS, 'parso.parser.BaseParser.error_recovery', 'parso.parser.ParserSyntaxError')
    ctx.assume(*_pipe.ASSUME)
    ctx.not_claimed(_pipe.OUTSIDE)
    C = []
    ks = [8, 33, 9, 25, 19] if q else list(range(0, len(P.HOLES), 2)) + [31, 33, 35, 37]
    if not q:
        C += PC.text_holes(ctx, own, ks, vis=(4,), timeout=900)
    C += PC.spell_holes(ctx, own, range(0, len(P.SPELL), 3) if q else range(len(P.SPELL)))
    C += PC.label_holes(ctx, own, [P.skel('x = 1  # done'), P.skel('foo bar'), P.skel('((((')] + _pipe.pick(ctx, 1, len(P.SKELS), 7) if q else range(len(P.SKELS)), vis=(4,) if q else (0, 4, 8))
    xh.run_conditions(ctx, C)
