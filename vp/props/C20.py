"""C20: the PEP 8 checker never fails and reports well-formed, stable issues."""
from .. import xh, pipeconds as PC
from ..harness import pipe as P
from . import _pipe

LEVEL = 'model_checking'
EXPLANATION = ('Post-condition on grammar._get_normalizer_issues(module) in the pipeline harnesses: no exception; tree fingerprint '
               'unchanged; int code, str message; range inside the file with non-negative columns; no duplicate (code, start); equal '
               'on a second call; W292 reported iff the text does not end in a line break (error-free trees). Decided by CrossHair '
               'over a symbolic character in skeleton texts, spellings over a small adversarial alphabet (l, O, I ...: realised), and '
               'complete label holes (realised). Known finding (indentation stack) is subtracted by call site.')


def run(ctx):
    q = ctx.tier == 'quick'
    own = ['c20', 'c20t']
    ctx.encode(*_pipe.FUNCS, 'parso.grammar.Grammar._get_normalizer_issues', 'parso.python.pep8.PEP8Normalizer (visit_leaf, _visit_part, '
               '_visit_node, _reset_newlines, _analyse_non_prefix, add_issue)', 'parso.python.pep8 IndentationNode/BracketNode/ImplicitNode/BackslashNode',
               'parso.normalizer.Normalizer.add_issue', 'parso.normalizer.Issue', 'parso.python.prefix.split_prefix/PrefixPart')
    ctx.assume(*_pipe.ASSUME)
    ctx.not_claimed(_pipe.OUTSIDE + '; trees obtained through diff-cache histories (see C04)')
    C = []
    ks = [35, 14, 24] if q else [35, 14, 24, 0, 11]
    if not q:
        C += PC.text_holes(ctx, own, ks, clauses='c20', timeout=600 if q else 1200)
    C += PC.spell_holes(ctx, own, [0, 17] if q else range(len(P.SPELL)), clauses='c20', alpha='lOIaifn_')
    mine = [P.skel('def a(): pass'), P.skel('\ufeffx'), P.skel('a = 1\nx = ['), P.skel('x = 12345')]
    C += PC.label_holes(ctx, own, mine if q else mine + [0, 3, 7, 10], vis=(4,), clauses=PC.SHARED + ',c13,c19,c20,c20t')
    if not q:
        C += PC.label_holes(ctx, own, [k for k in range(len(P.SKELS)) if k not in mine + [0, 3, 7, 10]], vis=(0, 4, 8))
    xh.run_conditions(ctx, C)
