"""Shared builder for the parser-level (pipeline) conditions of C01 C02 C03 C05 C07 C13 C19 C20.

Every condition checks the clause set SHARED (the cheap structural clauses) so that a result is reused
through the memo when several properties are checked on the same tree; `own` restricts the verdict to the
property's own clauses (a counterexample of a foreign clause triggers a re-run with the own clauses only)."""
from . import xh
from .harness import pipe as P

M = 'vp.harness.pipe'
SHARED = 'c01,c02,c03,c05,c07'
VI = {0: '3.6', 4: '3.10', 8: '3.14'}


def text_holes(ctx, own, ks, vis=(4,), clauses=SHARED, timeout=None):
    q = ctx.tier == 'quick'
    C = []
    for k in ks:
        pre, post = P.HOLES[k]
        for vi in vis:
            C.append(xh.Cond(M, 'pipe_hole', timeout=timeout or (420 if q else 1500), path_timeout=90,
                             env={'VP_CLAUSES': clauses, 'VP_VERSIONS': '0,4,8'}, own=own,
                             name='pipe/text-hole%d(%r+c+%r)/v%s/%s' % (k, pre, post, VI[vi], clauses),
                             extra_pre=['k == %d' % k, 'vi == %d' % vi],
                             bound='text %r + one character over ALL of Unicode + %r through tokenizer, parser and the '
                                   'clauses %s' % (pre, post, clauses), symbolic='code point of the hole character'))
    return C


def spell_holes(ctx, own, ks, vis=(4,), clauses=SHARED, two=True, alpha=None):
    q = ctx.tier == 'quick'
    C = []
    for k in ks:
        src, idx = P.SPELL[k]
        for vi in vis:
            ep = ['k == %d' % k, 'vi == %d' % vi]
            b = 'the NAME token #%d of %r spelled as ANY one-character identifier (all of Unicode)' % (idx, src)
            if alpha:
                ep.append('chr(c) in %r' % alpha)
                b = 'the NAME token #%d of %r spelled as one character of %r' % (idx, src, alpha)
            C.append(xh.Cond(M, 'pipe_spell1', timeout=200 if q else 900, path_timeout=60, own=own,
                             env={'VP_CLAUSES': clauses, 'VP_VERSIONS': '0,4,8'},
                             name='pipe/spell1#%d(%r)/v%s/%s' % (k, src.strip()[:24], VI[vi], clauses), extra_pre=ep,
                             bound=b + '; token level (tokenizer not under test); clauses ' + clauses,
                             symbolic='code point of the name'))
            if two:
                ep2 = ['k == %d' % k, 'vi == %d' % vi]
                b2 = 'the NAME token spelled as ANY two-character ASCII identifier (reaches if/in/is/or/as)'
                if alpha:
                    ep2 += ['chr(c1) in %r' % alpha, 'chr(c2) in %r' % alpha]
                    b2 = 'the NAME token spelled as two characters of %r' % alpha
                C.append(xh.Cond(M, 'pipe_spell2', timeout=300 if q else 1200, path_timeout=60, own=own,
                                 env={'VP_CLAUSES': clauses, 'VP_VERSIONS': '0,4,8'},
                                 name='pipe/spell2#%d(%r)/v%s/%s' % (k, src.strip()[:24], VI[vi], clauses), extra_pre=ep2,
                                 bound=b2 + ' in %r; token level; clauses %s' % (src, clauses),
                                 symbolic='two code points'))
    return C


def label_holes(ctx, own, ks, vis=(4,), clauses=SHARED + ',c13,c19,c20', positions=None):
    """realised-native: the label index and insert/replace flag are enumerated by the solver (complete)"""
    q = ctx.tier == 'quick'
    C = []
    sensitive = {P.skel('def f[T'), P.skel('def f(a, /'), P.skel('f"a'), P.skel("f'''"), 12, 11}
    for k in ks:
        n = len(P.SKELS[k])
        poss = range(n + 1) if positions is None else [p for p in positions if p <= n]
        for vi in vis:
            if not q and len(vis) > 1 and vi != 4 and k not in sensitive:
                continue
            for pos in poss:
                C.append(xh.Cond(M, 'pipe_label', timeout=200 if q else 600, path_timeout=30, own=own,
                                 env={'VP_CLAUSES': clauses, 'VP_VERSIONS': '0,4,8'},
                                 name='pipe/label#%d@%d/v%s/%s' % (k, pos, VI[vi], clauses),
                                 extra_pre=['k == %d' % k, 'vi == %d' % vi, 'pos == %d' % pos],
                                 bound='skeleton %r with every token of the grammar\'s complete label alphabet (%d labels) '
                                       'inserted at / replacing position %d' % (''.join(P.SKELS[k])[:40], len(P.labels(vi)), pos),
                                 realised='label index, insert/replace flag (complete finite dimension; parso runs natively '
                                          'after realisation)', symbolic=''))
    return C
