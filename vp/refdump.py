import json, sys, tokenize, token
out = {}
for n in ('Whitespace','Comment','Name','Number','Triple','ContStr','Funny','Operator','Bracket','Special','StringPrefix','PseudoToken','Pointfloat','Expfloat','Imagnumber','Intnumber'):
    v = getattr(tokenize, n, None)
    if isinstance(v, str): out[n] = v
ex = getattr(token, 'EXACT_TOKEN_TYPES', None) or getattr(tokenize, 'EXACT_TOKEN_TYPES', None)
out['EXACT'] = sorted(ex) if ex else None
out['version'] = list(sys.version_info[:3])
print(json.dumps(out))
