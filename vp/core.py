"""Shared plumbing: obligations, known findings, replay files, evidence, exit codes.

Exit codes: 0 = nothing outside the known findings violated (inconclusive obligations are
listed, never hidden), 1 = violation (a replaying counterexample), 2 = harness error
(translator disagreement, counterexample that does not replay, crashed tool).
"""
import hashlib
import json
import os
import sys
import time

ROOT = os.path.dirname(os.path.dirname(os.path.abspath(__file__)))
REPO = os.environ.get('VP_REPO', '/repo')
_OUT = os.environ.get('VP_OUT')      # seeded-mutant runs write their evidence / replays elsewhere
REPLAYS = os.path.join(_OUT or ROOT, 'replays')
EVIDENCE = os.path.join(_OUT or ROOT, 'evidence')
PY = os.path.join(ROOT, '.venv', 'bin', 'python')      # overlay: /venv + crosshair + z3
PLAIN_PY = '/venv/bin/python'                          # what the test-suite runs on

HOLDS, VIOLATED, KNOWN, INCONCLUSIVE, ERROR = 'holds', 'violated', 'known-finding', 'inconclusive', 'error'


def repo_digest():
    h = hashlib.sha256()
    base = os.path.join(REPO, 'parso')
    for d, dirs, files in sorted(os.walk(base)):
        dirs.sort()
        for f in sorted(files):
            if f.endswith(('.py', '.txt')):
                p = os.path.join(d, f)
                h.update(p.encode())
                with open(p, 'rb') as fh:
                    h.update(fh.read())
    return h.hexdigest()[:16]


def load_known():
    with open(os.path.join(ROOT, 'known_findings.json')) as f:
        return json.load(f)['findings']


class Obligation(dict):
    """One solver query (or one CrossHair condition) with its verdict."""


class Ctx:
    def __init__(self, prop, tier, seed):
        self.prop = prop
        self.tier = tier
        self.seed = seed
        self.t0 = time.time()
        self.obls = []
        self.functions = set()
        self.assumptions = []
        self.bounds = []
        self.outside = []
        self.samples = []
        self.known_hit = {}
        self.violations = []
        self.errors = []
        self.notes = []
        self.known = [k for k in load_known() if prop in k['properties']]
        os.makedirs(REPLAYS, exist_ok=True)
        os.makedirs(EVIDENCE, exist_ok=True)

    # ----- bookkeeping ----------------------------------------------------------------
    def encode(self, *names):
        self.functions.update(names)

    def assume(self, *texts):
        for t in texts:
            if t not in self.assumptions:
                self.assumptions.append(t)

    def bound(self, text):
        if text not in self.bounds:
            self.bounds.append(text)

    def not_claimed(self, text):
        if text not in self.outside:
            self.outside.append(text)

    def sample(self, s):
        if len(self.samples) < 12:
            self.samples.append(s)

    def add(self, name, engine, verdict, seconds, **kw):
        o = Obligation(name=name, engine=engine, verdict=verdict, seconds=round(seconds, 3), **kw)
        self.obls.append(o)
        return o

    def known_active(self, key):
        for k in self.known:
            if k['key'] == key and k['kind'] == 'known':
                return k
        return None

    def hit_known(self, key, detail=''):
        k = self.known_active(key)
        assert k is not None, key
        if key not in self.known_hit:
            self.known_hit[key] = detail
            print('KNOWN-FINDING: property=%s %s [%s]%s' % (
                self.prop, k['what'], key, (' witness: ' + detail) if detail else ''))
            sys.stdout.flush()

    def write_replay(self, name, body):
        """body: python source of a stand-alone script (exit 1 = violation reproduces)."""
        safe = ''.join(c if c.isalnum() or c in '-_.' else '_' for c in name)[:90]
        safe += '_' + hashlib.sha1(name.encode()).hexdigest()[:8]     # names differing only in punctuation stay distinct
        path = os.path.join(REPLAYS, '%s_%s.py' % (self.prop, safe))
        with open(path, 'w') as f:
            f.write(body)
        return path

    def violation(self, name, replay, detail):
        self.violations.append({'obligation': name, 'replay': replay, 'detail': detail})
        print('VIOLATION property=%s replay=%s' % (self.prop, replay))
        print('  obligation: %s' % name)
        print('  detail: %s' % (detail[:600],))
        sys.stdout.flush()

    def error(self, name, detail):
        self.errors.append({'obligation': name, 'detail': detail})
        print('HARNESS-ERROR property=%s obligation=%s: %s' % (self.prop, name, detail[:1500]))
        sys.stdout.flush()

    # ----- evidence -------------------------------------------------------------------
    def finish(self, level='model_checking', explanation=''):
        wall = time.time() - self.t0
        by = {}
        for o in self.obls:
            by.setdefault(o['verdict'], []).append(o)
        n_holds = len(by.get(HOLDS, []))
        n_inconc = len(by.get(INCONCLUSIVE, []))
        solver_s = sum(o['seconds'] for o in self.obls)
        nontrivial = sum(1 for o in self.obls
                         if o['verdict'] == HOLDS and o.get('nonvacuous', False))
        cov = {
            'evaluations': len(self.obls),
            'distinct_nontrivial': nontrivial,
            'rule': ('one evaluation = one solver query / CrossHair condition over the symbolic '
                     'domain written in its "bound"; non-trivial = verdict "holds" AND its '
                     'vacuity guard passed (non-empty language / reachability twin refuted / '
                     'paths explored > 0); distinct by obligation name'),
            'samples': self.samples[:12] or [o['name'] for o in self.obls[:5]],
            'obligations': len(self.obls),
            'discharged': n_holds,
            'inconclusive': n_inconc,
            'known_findings_hit': sorted(self.known_hit),
            'solver_time_s': round(solver_s, 2),
            'functions_encoded': sorted(self.functions),
            'bounds': self.bounds,
            'outside_the_claim': self.outside,
            'exhaustive': False,
            'explanation': explanation,
            'repo_digest': repo_digest(),
            'verdicts': {k: len(v) for k, v in by.items()},
            'inconclusive_list': [
                {'name': o['name'], 'why': o.get('detail', '')[:200]} for o in by.get(INCONCLUSIVE, [])],
            'obligation_list': [
                {k: v for k, v in o.items() if k in (
                    'name', 'engine', 'verdict', 'seconds', 'bound', 'paths', 'symbolic',
                    'realised', 'nonvacuous', 'detail', 'solver', 'kind', 'memo')}
                for o in self.obls],
            'notes': self.notes,
        }
        ev = {
            'property_id': self.prop,
            'tier': self.tier,
            'seed': self.seed,
            'level': level,
            'coverage': cov,
            'assumptions': self.assumptions,
            'wall_s': round(wall, 2),
            'violations': len(self.violations),
        }
        path = os.path.join(EVIDENCE, '%s.json' % self.prop)
        tmp = path + '.tmp'
        with open(tmp, 'w') as f:
            json.dump(ev, f, indent=1, ensure_ascii=True, default=str)
        os.replace(tmp, path)
        print('%s tier=%s: %d obligations, %d hold, %d inconclusive, %d known-finding hits, '
              '%d violations, %d harness errors, solver %.1fs, wall %.1fs' % (
                  self.prop, self.tier, len(self.obls), n_holds, n_inconc, len(self.known_hit),
                  len(self.violations), len(self.errors), solver_s, wall))
        for o in by.get(INCONCLUSIVE, []):
            print('  inconclusive: %s (%s)' % (o['name'], o.get('detail', '')[:160]))
        if self.violations:
            return 1
        if self.errors:
            return 2
        if n_holds == 0:
            print('HARNESS-ERROR: nothing was decided')
            return 2
        return 0
