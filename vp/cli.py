import argparse
import importlib
import os
import subprocess
import sys
import traceback

from .core import Ctx, PLAIN_PY, REPO


def main():
    ap = argparse.ArgumentParser()
    ap.add_argument('prop')
    ap.add_argument('--tier', default=os.environ.get('VERIF_TIER', 'quick'), choices=['quick', 'thorough'])
    ap.add_argument('--replay')
    ap.add_argument('--only', help='substring filter on obligation/harness names (debugging)')
    a = ap.parse_args()
    if a.replay:
        env = dict(os.environ, PYTHONPATH=REPO + os.pathsep + os.path.dirname(os.path.dirname(__file__)))
        sys.exit(subprocess.call([PLAIN_PY, a.replay], env=env))
    seed = int(os.environ.get('VERIF_SEED', '0') or 0)
    ctx = Ctx(a.prop, a.tier, seed)
    ctx.only = a.only
    try:
        mod = importlib.import_module('vp.props.' + a.prop)
        mod.run(ctx)
        level = getattr(mod, 'LEVEL', 'model_checking')
        code = ctx.finish(level=level, explanation=getattr(mod, 'EXPLANATION', ''))
    except Exception:
        traceback.print_exc()
        print('HARNESS-ERROR property=%s: exception in the checker itself' % a.prop)
        try:
            ctx.error('checker', traceback.format_exc()[-800:])
            ctx.finish()
        except Exception:
            pass
        code = 2
    sys.exit(code)


if __name__ == '__main__':
    main()
