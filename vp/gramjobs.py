"""Worker-side jobs for the grammar-table obligations (C08, table part of C06)."""
import glob
import os
import random
import time


def shipped_grammar_files():
    import parso
    return sorted(glob.glob(os.path.join(os.path.dirname(parso.__file__), 'python', 'grammar*.txt')))


def job_file(path, want_follow):
    from parso.python.token import PythonTokenTypes
    from . import tables
    with open(path) as f:
        text = f.read()
    label = os.path.basename(path)[:-4]
    res, spec, g = tables.check_grammar(text, PythonTokenTypes, label, want_follow=want_follow)
    sample = None
    if g is not None:
        n_states = sum(len(d) for d in g.nonterminal_to_dfas.values())
        n_trans = sum(len(s.transitions) for d in g.nonterminal_to_dfas.values() for s in d)
        sample = {'grammar': label, 'rules': len(spec.order), 'dfa_states': n_states, 'transitions': n_trans}
    res += namespace_identity(text, label)
    return {'label': label, 'text_path': path, 'results': res, 'sample': sample}


def namespace_identity(text, label):
    """the token keys of the tables must be members of the namespace that was passed in THIS call (a second
    call with another namespace must not be served from anything keyed by the text alone)"""
    import enum
    from parso.pgen2.generator import generate_grammar, ReservedString
    from parso.python.token import PythonTokenTypes, TokenType
    t0 = time.time()
    generate_grammar(text, PythonTokenTypes)
    Alt = enum.Enum('AltTokenTypes', {m.name: TokenType(m.name, m.value.contains_syntax) for m in PythonTokenTypes})
    g2 = generate_grammar(text, Alt)
    foreign = 0
    n = 0
    for dfas in g2.nonterminal_to_dfas.values():
        for s in dfas:
            for k in s.transitions:
                if not isinstance(k, ReservedString):
                    n += 1
                    if k is not getattr(Alt, k.name, None):
                        foreign += 1
    ok = foreign == 0 and n > 0
    return [dict(name='%s:O5-token-namespace' % label, verdict='holds' if ok else 'violated', seconds=time.time() - t0,
                 detail='%d token keys of a second generation with another namespace belong to that namespace' % n if ok else
                 '%d of %d token keys belong to a namespace of an EARLIER call' % (foreign, n), nonvacuous=n > 0,
                 kind='table-compare', **({} if ok else {'witness': {'kind': 'namespace'}}))]


# ---- built-in broken twins: each must be reported as violated (vacuity guard) ----------------
def _twin_final(g):
    d = g.nonterminal_to_dfas['simple_stmt']
    for s in d:
        if not s.is_final:
            s.is_final = True
            return


def _twin_drop_transition(g):
    d = g.nonterminal_to_dfas['atom'][0]
    k = next(iter(d.transitions))
    del d.transitions[k]


def _twin_reverse_pushes(g):
    for s in g.nonterminal_to_dfas['file_input']:
        for k, plan in s.transitions.items():
            if len(plan.dfa_pushes) >= 2:
                plan.dfa_pushes = list(reversed(plan.dfa_pushes))
                return


def _twin_wrong_next(g):
    d = g.nonterminal_to_dfas['if_stmt']
    for s in d:
        for k, plan in s.transitions.items():
            other = [x for x in d if x is not plan.next_dfa]
            if other:
                plan.next_dfa = other[0]
                return


TWINS = {'final-flag': (_twin_final, 'O1'), 'dropped-transition': (_twin_drop_transition, 'O3-table'),
         'reversed-pushes': (_twin_reverse_pushes, 'O3-table'), 'wrong-next-state': (_twin_wrong_next, 'O3-table')}


def job_twin(path, twin):
    from parso.python.token import PythonTokenTypes
    from . import tables
    with open(path) as f:
        text = f.read()
    fn, expect = TWINS[twin]
    res, spec, g = tables.check_grammar(text, PythonTokenTypes, 'twin-' + twin, mutate=fn)
    hit = [r for r in res if r['verdict'] == 'violated' and r['name'].endswith(expect)]
    secs = sum(r['seconds'] for r in res)
    return {'twin': twin, 'noticed': bool(hit), 'seconds': secs,
            'detail': hit[0]['detail'] if hit else 'NOT NOTICED: %r' % [(r['name'], r['verdict']) for r in res]}


# ---- synthetic grammars -------------------------------------------------------------------------
TERMS = ['NAME', 'NUMBER', 'STRING', "'a'", "'b'", "'+'"]


def gen_term(rnd, ops, atoms):
    if ops <= 0:
        return rnd.choice(atoms)
    kind = rnd.choice(['cat', 'cat', 'alt', 'alt', 'opt', 'star', 'plus', 'group'])
    if kind in ('cat', 'alt'):
        left = rnd.randint(0, ops - 1)
        a, b = gen_term(rnd, left, atoms), gen_term(rnd, ops - 1 - left, atoms)
        return '%s %s' % (a, b) if kind == 'cat' else '(%s | %s)' % (a, b)
    inner = gen_term(rnd, ops - 1, atoms)
    if kind == 'opt':
        return '[%s]' % inner
    if kind == 'group':
        return '(%s)' % inner
    return '(%s)%s' % (inner, '*' if kind == 'star' else '+')


def gen_grammar(seed, index, max_rules=3, max_ops=6):
    rnd = random.Random('%d/%d' % (seed, index))
    n = rnd.randint(1, max_rules)
    names = ['r%d' % i for i in range(n)]
    lines = []
    for i, nm in enumerate(names):
        # later rules may be referenced by earlier ones and (rarely) vice versa -> left recursion
        refs = names[i + 1:] + ([rnd.choice(names)] if rnd.random() < 0.15 else [])
        atoms = TERMS[:rnd.randint(2, len(TERMS))] + refs * 2
        lines.append('%s: %s' % (nm, gen_term(rnd, rnd.randint(0, max_ops), atoms)))
    return '\n'.join(lines) + '\n'


def systematic_terms(ops, atoms):
    """all EBNF terms with exactly `ops` operators over `atoms` (operators: concatenation, |, [], *, +)"""
    if ops == 0:
        return list(atoms)
    out = []
    for t in systematic_terms(ops - 1, atoms):
        out += ['[%s]' % t, '(%s)*' % t, '(%s)+' % t]
    for left in range(ops):
        for a in systematic_terms(left, atoms):
            for b in systematic_terms(ops - 1 - left, atoms):
                out.append('%s %s' % (a, b))
                out.append('(%s | %s)' % (a, b))
    return out


_SYS = {}


def systematic_grammar(index):
    """index into the family  r0: <term with <=3 operators over 'a', 'b', r0, r1> ; r1: 'b' 'a' | 'a'"""
    if not _SYS:
        terms = []
        for n in range(4):
            terms += systematic_terms(n, ["'a'", "'b'", 'r0', 'r1'])
        _SYS['terms'] = terms
    terms = _SYS['terms']
    if index >= len(terms):
        # second family: the helper rule refers back to r0 (indirect left recursion, mutual reference)
        if 'terms2' not in _SYS:
            t2 = []
            for n in range(3):
                t2 += systematic_terms(n, ["'a'", "'b'", 'r1'])
            _SYS['terms2'] = t2
        j = index - len(terms)
        if j >= 2 * len(_SYS['terms2']):
            return None
        r1 = "r0 'b' | 'a'" if j % 2 == 0 else "'a' [r0] 'b'"
        return "r0: %s\nr1: %s\n" % (_SYS['terms2'][j // 2], r1)
    return "r0: %s\nr1: 'b' 'a' | 'a'\n" % terms[index]


def job_synth(seed, lo, hi, systematic=False):
    from parso.python.token import PythonTokenTypes
    from . import tables
    out = []
    for i in range(lo, hi):
        text = systematic_grammar(i) if systematic else gen_grammar(seed, i)
        if text is None:
            break
        t0 = time.time()
        try:
            res, spec, g = tables.check_grammar(text, PythonTokenTypes, ('sys%d' if systematic else 'synth%d') % i, timeout_ms=20000)
        except ValueError as e:
            out.append({'index': i, 'text': text, 'results': [
                {'name': 'synth%d:spec-read' % i, 'verdict': 'error', 'seconds': 0.0, 'detail': repr(e)}]})
            continue
        out.append({'index': i, 'text': text, 'results': res, 'accepted': g is not None,
                    'seconds': time.time() - t0})
    return out


def grammar_replay_source(text, witness):
    return ('# replay of a grammar-table counterexample; exit 1 = reproduces on /repo\n'
            'import sys\nsys.path.insert(0, %r)\nfrom vp import replay_grammar\n'
            'TEXT = %r\nWITNESS = %r\nreplay_grammar.main(TEXT, WITNESS)\n'
            % (os.path.dirname(os.path.dirname(os.path.abspath(__file__))), text, witness))
