"""Concrete (solver-free) re-evaluation of regex-lemma counterexamples on the real code, used by replay
scripts.  Each function returns True when the violation reproduces on /repo."""
import sys


def _tc(v):
    from parso.python import tokenize as T
    return T._get_token_collection(tuple(v))


def t8_prefix_split(w, v=None):
    """w is a prefix the tokenizer can emit; split_prefix must tile it without raising"""
    from parso.python.prefix import split_prefix

    class L:
        prefix = w
        parent = None
        type = 'x'
    try:
        parts = list(split_prefix(L(), (1, 0)))
    except Exception as e:
        print('split_prefix(%r) raised %r' % (w, e))
        return True
    txt = ''.join(p.spacing + p.value if p.type != 'spacing' else p.value for p in parts)
    print('parts', parts)
    return txt != w


def tokenizer_produces_prefix(w, v):
    """sanity: some text makes the tokenizer emit prefix w (w + 'x')"""
    from parso.python.tokenize import tokenize
    toks = list(tokenize(w + 'x', version_info=tuple(v)))
    return toks[0].prefix == w or any(t.prefix == w for t in toks)


def t1_pseudomatch_or_char(w, v):
    tc = _tc(v)
    if tc.pseudo_token.match(w):
        return False
    m = tc.whitespace.match(w)
    return m.end() >= len(w)


def t2_progress(w, v):
    tc = _tc(v)
    m = tc.pseudo_token.match(w)
    return m is not None and m.end(2) == m.start(2) and m.end(0) != len(w)


def t3_linebreak(w, v):
    """a NAME/NUMBER/OP token with a line break inside"""
    from parso.python.tokenize import tokenize
    from parso.python.token import PythonTokenTypes as T
    for t in tokenize(w, version_info=tuple(v)):
        if t.type in (T.NAME, T.NUMBER, T.OP) and ('\n' in t.string or '\r' in t.string):
            print('token', t)
            return True
    return False


def t4_digit_number(w, v):
    """text starting with a digit (or '.'+digit) whose first token is not a NUMBER"""
    from parso.python.tokenize import tokenize
    from parso.python.token import PythonTokenTypes as T
    t = next(iter(tokenize(w, version_info=tuple(v))))
    print('first token', t)
    return t.type != T.NUMBER


def main(fn, *args):
    r = globals()[fn](*args)
    print('REPRODUCED' if r else 'not reproduced')
    sys.exit(1 if r else 0)
