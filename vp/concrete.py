"""Concrete (solver-free) re-evaluation of regex-lemma counterexamples on the real code, used by replay
scripts.  Each function returns True when the violation reproduces on /repo."""
import sys


def _tc(v):
    from parso.python import tokenize as T
    return T._get_token_collection(tuple(v))


def t8_prefix_split(w, v=None):
    """w is a prefix the tokenizer can emit; split_prefix must tile it without raising"""
    from parso.python.prefix import split_prefix

    class L:
        prefix = w
        parent = None
        type = 'x'
    try:
        parts = list(split_prefix(L(), (1, 0)))
    except Exception as e:
        print('split_prefix(%r) raised %r' % (w, e))
        return True
    txt = ''.join(p.spacing + p.value if p.type != 'spacing' else p.value for p in parts)
    print('parts', parts)
    return txt != w


def tokenizer_produces_prefix(w, v):
    """sanity: some text makes the tokenizer emit prefix w (w + 'x')"""
    from parso.python.tokenize import tokenize
    toks = list(tokenize(w + 'x', version_info=tuple(v)))
    return toks[0].prefix == w or any(t.prefix == w for t in toks)


def t1_pseudomatch_or_char(w, v):
    tc = _tc(v)
    if tc.pseudo_token.match(w):
        return False
    m = tc.whitespace.match(w)
    return m.end() >= len(w)


def t2_progress(w, v):
    tc = _tc(v)
    m = tc.pseudo_token.match(w)
    return m is not None and m.end(2) == m.start(2) and m.end(0) != len(w)


def t3_linebreak(w, v):
    """a NAME/NUMBER/OP token with a line break inside"""
    from parso.python.tokenize import tokenize
    from parso.python.token import PythonTokenTypes as T
    for t in tokenize(w, version_info=tuple(v)):
        if t.type in (T.NAME, T.NUMBER, T.OP) and ('\n' in t.string or '\r' in t.string):
            print('token', t)
            return True
    return False


def t4_digit_number(w, v):
    """text starting with a digit (or '.'+digit) whose first token is not a NUMBER"""
    from parso.python.tokenize import tokenize
    from parso.python.token import PythonTokenTypes as T
    t = next(iter(tokenize(w, version_info=tuple(v))))
    print('first token', t)
    return t.type != T.NUMBER


def main(fn, *args):
    r = globals()[fn](*args)
    print('REPRODUCED' if r else 'not reproduced')
    sys.exit(1 if r else 0)


def _ref_decode(b):
    """CPython's rule (tokenize.detect_encoding + decode), BOM kept as U+FEFF; None = CPython cannot decode"""
    import io
    import tokenize
    try:
        enc, _ = tokenize.detect_encoding(io.BytesIO(b).readline)
    except SyntaxError:
        return None
    try:
        return b.decode('utf-8' if enc == 'utf-8-sig' else enc)
    except (UnicodeDecodeError, LookupError):
        return None


def c15_decode(w, payload=b'\n\xc3\xa9\n'):
    """w: ASCII text of the first two lines; the file is w + payload.  The declared name of the witness is an
    arbitrary member of [-\\w.]+; it is replaced by a real codec so that CPython can decode the file."""
    import re as _re
    for codec in (None, 'latin-1', 'cp1252'):
        w2 = w if codec is None else _re.sub(r'(coding[:=][ \t]*)[-\w.]+', lambda m: m.group(1) + codec, w, count=1)
        if _c15_decode_one(w2, payload):
            return True
    return False


def _c15_decode_one(w, payload):
    from parso import python_bytes_to_unicode
    b = w.encode('latin-1') + payload
    ref = _ref_decode(b)
    if ref is None:
        print('CPython cannot determine the encoding / decode: outside the claim')
        return False
    try:
        got = python_bytes_to_unicode(b)
    except Exception as e:
        print('parso raised %r, CPython decodes to %r' % (e, ref[:60]))
        return True
    print('parso %r | CPython %r' % (got[:60], ref[:60]))
    return got != ref


def c10_number(w, python):
    """number literal w: one NUMBER token for the reference tokenizer iff one NUMBER token for parso"""
    import subprocess
    import sys
    from parso.python.tokenize import tokenize
    from parso.python.token import PythonTokenTypes as T
    code = ('import tokenize, io, sys\n'
            'try:\n    t = list(tokenize.generate_tokens(io.StringIO(%r + "\\n").readline))\n'
            '    print(int(t[0].type == tokenize.NUMBER and t[0].string == %r))\n'
            'except Exception as e:\n    print(0)\n' % (w, w))
    ref = subprocess.run([python, '-c', code], capture_output=True, text=True).stdout.strip() == '1'
    v = subprocess.run([python, '-c', 'import sys;print(sys.version_info[0], sys.version_info[1])'], capture_output=True, text=True).stdout.split()
    t = list(tokenize(w + '\n', version_info=(int(v[0]), int(v[1]))))
    mine = t[0].type == T.NUMBER and t[0].string == w
    print('literal %r: reference NUMBER=%s parso NUMBER=%s' % (w, ref, mine))
    return ref != mine


def c10_operator(w, v):
    tc = _tc(v)
    m = tc.pseudo_token.match(w)
    print('operator %r matched as %r' % (w, m.group(2) if m else None))
    return m is None or m.group(2) != w


def c10_indent(w1, w2):
    """program `if x:\\n<w1>y\\n<w2>z\\n`: CPython tokenizes without error; does parso see the same INDENT/DEDENT structure?"""
    import io
    import tokenize as ref
    from parso.python.tokenize import tokenize
    from parso.python.token import PythonTokenTypes as T
    src = 'if x:\n%sy\n%sz\n' % (w1, w2)
    if not w1:
        return False
    try:
        rt = [t.type for t in ref.generate_tokens(io.StringIO(src).readline)]
    except Exception as e:
        print('reference rejects %r: %r' % (src, e))
        return False
    r_ind = [('I' if t == ref.INDENT else 'D') for t in rt if t in (ref.INDENT, ref.DEDENT)]
    mine = list(tokenize(src, version_info=(3, 12)))
    m_ind = [('I' if t.type == T.INDENT else ('D' if t.type == T.DEDENT else 'E')) for t in mine
             if t.type in (T.INDENT, T.DEDENT, T.ERROR_DEDENT)]
    print('source %r: reference %s parso %s' % (src, r_ind, m_ind))
    return r_ind != m_ind


def c10_name_char(w, v):
    tc = _tc(v)
    m = tc.pseudo_token.match('a' + w)
    print('a+%r is an identifier: %s; matched as %r' % (w, ('a' + w).isidentifier(), m.group(2) if m else None))
    return ('a' + w).isidentifier() and (m is None or m.group(2) != 'a' + w)


def t9_backtracking(pattern, flags, w):
    """the failing match of (witness repeated n times + a character that cannot continue) grows exponentially"""
    import re
    import time
    p = re.compile(pattern, flags)
    prev = None
    n = 4
    while n <= 60:
        s = w * n + '\x00'
        t0 = time.perf_counter()
        p.match(s)
        t = time.perf_counter() - t0
        if t > 0.2:
            grew = prev is not None and t > 3 * prev
            print('failing match of %r x %d takes %.3fs (x %d: %.4fs): exponential=%s' % (w, n, t, n - 2, prev or 0, grew))
            return grew
        prev = t
        n += 2
    print('no blow-up up to %d repetitions of %r' % (n, w))
    return False


def c10_stream(w, python, version):
    """the witness as a one-line program: significant tokens of the reference interpreter's tokenizer vs parso's"""
    import json
    import subprocess
    from parso.python.tokenize import tokenize, _get_token_collection
    for v in ((3, 6), (3, 7), (3, 8), (3, 9), (3, 10), (3, 11), (3, 12), (3, 13), (3, 14)):
        _get_token_collection(v)          # same call order as the check (token collections are memoised per process)
        if v == tuple(version):
            break
    code = ('import tokenize, io, json\n'
            'out = []\n'
            'try:\n'
            '    for t in tokenize.generate_tokens(io.StringIO(%r + "\\n").readline):\n'
            '        n = tokenize.tok_name[t.type]\n'
            '        if n in ("COMMENT", "NL", "ENDMARKER", "NEWLINE", "INDENT", "DEDENT"): continue\n'
            '        out.append([n if n != "ERRORTOKEN" else "ERR", t.string])\n'
            'except Exception as e:\n'
            '    out = None\n'
            'print(json.dumps(out))\n' % (w,))
    r = subprocess.run([python, '-c', code], capture_output=True, text=True)
    try:
        ref = json.loads(r.stdout)
    except Exception:
        ref = None
    if ref is None or any(t[0] == 'ERR' for t in ref):
        print('the reference tokenizer does not accept %r: outside the claim' % w)
        return False
    mine = []
    fdepth = 0
    for t in tokenize(w + '\n', version_info=tuple(version)):
        n = t.type.name
        if n in ('ENDMARKER', 'NEWLINE', 'INDENT', 'DEDENT'):
            continue
        if n == 'FSTRING_START':
            fdepth += 1
            mine.append(['STRING', t.string])
            continue
        if fdepth:
            mine[-1][1] += t.prefix + t.string
            if n == 'FSTRING_END':
                fdepth -= 1
            continue
        mine.append([n if n not in ('ERRORTOKEN', 'ERROR_DEDENT') else 'ERR', t.string])
    print('reference %r | parso %r' % (ref, mine))
    return ref != mine
