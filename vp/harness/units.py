"""X-unit harnesses: one real parso function per condition, symbolic strings / ints."""
import os

from parso.tree import Leaf
from parso.python import tree as pt
from parso.python.prefix import split_prefix
from parso.utils import split_lines

from vp.oracle import walk, ref_split_lines, is_pure_prefix, comment_formfeed_crash, BOM

WHY = None
TWIN = os.environ.get('VP_TWIN')


if TWIN == 'newline-column-off':
    # built-in broken twin: columns after a line break inside a prefix are off by one
    import inspect as _inspect
    import parso.python.prefix as _P
    _src = _inspect.getsource(_P.split_prefix)
    assert 'column = -start' in _src
    exec(compile(_src.replace('column = -start', 'column = -start + 1'), 'twin', 'exec'), _P.__dict__)
    split_prefix = _P.split_prefix
if TWIN == 'end-pos-ignores-cr':
    Leaf.end_pos = property(lambda self: (self.line + self.value.count(chr(10)),
                                          len(self.value) - 1 - self.value.rfind(chr(10)) + (self.column if chr(10) not in self.value else 0)))


def _no(why):
    global WHY
    WHY = why
    return False


# ---------------------------------------------------------------------------------------------
# C03: end positions
def leaf_end_pos(value: str, line: int, col: int) -> bool:
    """
    require: len(value) <= 3 and line >= 1 and col >= 0
    """
    leaf = Leaf(value, (line, col))
    want = walk((line, col), value)
    got = leaf.end_pos
    if got != want:
        return _no('Leaf(%r, %r).end_pos = %r, text ends at %r' % (value, (line, col), got, want))
    return True


def pyleaf_end_pos(value: str, line: int, col: int, kind: int) -> bool:
    """
    require: len(value) <= 3 and line >= 1 and col >= 0 and 0 <= kind <= 4
    """
    # leaf classes that may carry line breaks: strings, f-string text, error leaves, newline, backslash-less ops
    if kind == 0:
        leaf = pt.String(value, (line, col))
    elif kind == 1:
        leaf = pt.FStringString(value, (line, col))
    elif kind == 2:
        leaf = pt.PythonErrorLeaf('ERRORTOKEN', value, (line, col))
    elif kind == 3:
        leaf = pt.Newline(value, (line, col))
    else:
        leaf = pt.EndMarker(value, (line, col))
    if kind == 4 and value != '':
        return True
    want = walk((line, col), value)
    if leaf.end_pos != want:
        return _no('%s(%r).end_pos = %r, text ends at %r' % (type(leaf).__name__, value, leaf.end_pos, want))
    return True


def first_leaf_prefix_start(prefix: str, kind: int) -> bool:
    """
    require: len(prefix) <= 3 and 0 <= kind <= 1
    """
    # a first leaf whose start is where its prefix ends: the prefix must be reported to start at (1, 0)
    start = walk((1, 0), prefix, bom_allowed=True)
    leaf = pt.Name('x', start, prefix) if kind == 0 else Leaf('x', start, prefix)
    got = leaf.get_start_pos_of_prefix()
    if got != (1, 0):
        return _no('first leaf at %r with prefix %r: prefix start %r' % (start, prefix, got))
    return True


def prefix_start_after_error_leaf(value: str, line: int, col: int, tt: int) -> bool:
    """
    require: len(value) <= 2 and line >= 1 and col >= 0 and 0 <= tt <= 3
    """
    # [prev] [zero-width INDENT/DEDENT/ERROR_DEDENT error leaf] [leaf]: the leaf's prefix starts at prev's end;
    # with another error leaf type the prefix starts at that error leaf's end.
    prev = pt.String(value, (line, col))
    end = walk((line, col), value)
    types = ('INDENT', 'DEDENT', 'ERROR_DEDENT', 'ERRORTOKEN')
    err = pt.PythonErrorLeaf(types[tt], '' if tt < 3 else '$', end)
    err_end = walk(end, err.value)
    leaf = pt.Name('x', err_end)
    node = pt.PythonNode('file_input', [prev, err, leaf])
    got = leaf.get_start_pos_of_prefix()
    want = end if tt < 3 else err_end
    if got != want:
        return _no('prefix start %r != %r' % (got, want))
    if err.get_start_pos_of_prefix() != end:
        return _no('error leaf prefix start %r' % (err.get_start_pos_of_prefix(),))
    return node.end_pos == walk(err_end, 'x')


def prefix_start_after_first_indent_error(prefix: str, tt: int) -> bool:
    """
    require: len(prefix) <= 3 and 0 <= tt <= 1
    """
    # the module starts with a zero-width INDENT / ERROR_DEDENT error leaf (indented first statement); the next
    # leaf carries the whole leading prefix (comments, blank lines): that prefix starts at (1, 0)
    start = walk((1, 0), prefix, bom_allowed=True)
    err = pt.PythonErrorLeaf(('INDENT', 'ERROR_DEDENT')[tt], '', start)
    leaf = pt.Name('x', start, prefix)
    pt.PythonNode('file_input', [err, leaf])
    got = leaf.get_start_pos_of_prefix()
    if got != (1, 0):
        return _no('first real leaf at %r after a leading %s error leaf, prefix %r: prefix start %r' % (start, err.token_type, prefix, got))
    return True


# ---------------------------------------------------------------------------------------------
# C15: line splitting
def split_lines_laws(s: str) -> bool:
    """
    require: len(s) <= 3
    """
    keep = split_lines(s, keepends=True)
    drop = split_lines(s)
    ref = ref_split_lines(s)
    if keep != ref:
        return _no('split_lines(%r, keepends=True) = %r, Python line structure is %r' % (s, keep, ref))
    if ''.join(keep) != s:
        return _no('lines do not join back')
    if len(keep) < 1 or len(drop) != len(keep):
        return _no('line counts differ: %r vs %r' % (drop, keep))
    i = 0
    for k, d in zip(keep, drop):
        e = k
        if e.endswith('\r\n'):
            e = e[:-2]
        elif e.endswith('\n') or e.endswith('\r'):
            e = e[:-1]
        if d != e:
            return _no('line %d: without ends %r, with ends %r' % (i, d, k))
        i += 1
    return True


# ---------------------------------------------------------------------------------------------
# C09: prefix splitting
class _L:
    def __init__(self, prefix):
        self.prefix = prefix
        self.parent = None
        self.type = 'x'


PA = " \t\f#a\\\n\r" + BOM


def prefix_parts(p: str, line: int, col: int, first: bool) -> bool:
    """
    require: len(p) <= 3 and line >= 1 and col >= 0
    require: all(c in PA for c in p)
    """
    if not is_pure_prefix(p, first):
        return True     # not a prefix the tokenizer can produce (lemma T8 / X-tok g4)
    if first:
        line, col = 1, 0
    parts = list(split_prefix(_L(p), (line, col)))
    if not parts or parts[-1].type != 'spacing':
        return _no('last part is not spacing')
    text = ''
    pos = (line, col)
    at_start = first
    for x in parts:
        if x.type != 'spacing':
            if any(c != ' ' and c != '\t' for c in x.spacing):
                return _no('spacing %r' % x.spacing)
            pos = walk(pos, x.spacing)
            text += x.spacing
        if x.start_pos != pos:
            return _no('part %r of %r at %r, true position %r' % (x.value, p, x.start_pos, pos))
        pos = walk(pos, x.value, bom_allowed=at_start and text == '')
        text += x.value
        if x.end_pos != pos:
            return _no('part %r of %r ends at %r, true end %r' % (x.value, p, x.end_pos, pos))
        want = {'#': 'comment', '\\': 'backslash', '\f': 'formfeed', '\n': 'newline', '\r': 'newline',
                BOM: 'bom'}.get(x.value[:1], 'spacing')
        if x.type != want:
            return _no('part %r typed %s' % (x.value, x.type))
    if text != p:
        return _no('parts %r do not tile %r' % (text, p))
    return True


def prefix_parts_known(p, line, col, first):
    if comment_formfeed_crash(p):
        return 'prefix-comment-formfeed'
    return None


# ---------------------------------------------------------------------------------------------
# C09: name splitting and f-string helpers
from parso.python.tokenize import _split_illegal_unicode_name, _close_fstring_if_necessary, FStringNode
from parso.python.token import PythonTokenTypes as T


def split_name(tok: str, col: int, prefix: str) -> bool:
    """
    require: 1 <= len(tok) <= 3 and col >= 0 and len(prefix) <= 1
    require: all(c == '_' or c.isalnum() or ord(c) >= 128 for c in tok)
    """
    parts = list(_split_illegal_unicode_name(tok, (1, col), prefix))
    if ''.join(p.string for p in parts) != tok:
        return _no('parts do not tile the name')
    c = col
    i = 0
    for p in parts:
        if p.start_pos != (1, c):
            return _no('part %r at %r, true column %d' % (p.string, p.start_pos, c))
        if p.prefix != (prefix if i == 0 else ''):
            return _no('prefix %r on part %d' % (p.prefix, i))
        if p.type == T.NAME and not p.string.isidentifier():
            return _no('NAME part %r is no identifier' % p.string)
        if p.type != T.NAME and p.type != T.ERRORTOKEN:
            return _no('part type %r' % p.type)
        if p.string == '':
            return _no('empty part')
        c += len(p.string)
        i += 1
    return True


def single_line(s):
    """s is (a tail of) one physical line: no line break except a final \\n, \\r or \\r\\n"""
    n = len(s)
    i = 0
    while i < n:
        if s[i] == '\n':
            return i == n - 1
        if s[i] == '\r':
            return i == n - 1 or (i == n - 2 and s[i + 1] == '\n')
        i += 1
    return True


def close_fstring(rest: str, q: int, col: int, add: str) -> bool:
    """
    require: len(rest) <= 3 and 0 <= q <= 3 and col >= 0 and len(add) <= 1
    require: add in ('', ' ', chr(10))
    require: single_line(rest)
    """
    quote = ('"', "'", '"""', "'''")[q]
    stack = [FStringNode(quote)]
    token, new_add, consumed = _close_fstring_if_necessary(stack, rest, 1, col, add)
    if token is None:
        return new_add == add and consumed == 0 and len(stack) == 1
    # the end token: prefix + quote must be exactly the consumed text and the prefix must be
    # syntactically irrelevant text (Python whitespace / newlines only)
    if add + rest[:consumed] != token.prefix + token.string:
        return _no('consumed %r but token is %r+%r' % (rest[:consumed], token.prefix, token.string))
    if token.string != quote or stack:
        return _no('wrong end token')
    if not is_pure_prefix(token.prefix, False):
        return _no('FSTRING_END prefix %r contains text that is not Python whitespace' % token.prefix)
    if token.start_pos != walk((1, col), rest[:consumed - len(quote)]):
        return _no('FSTRING_END at %r' % (token.start_pos,))
    return True


def split_lines_c(c1: int, c2: int, c3: int) -> bool:
    """
    require: 0 <= c1 < 0x110000 and 0 <= c2 < 0x110000 and 0 <= c3 < 0x110000
    require: not (0xD800 <= c1 <= 0xDFFF) and not (0xD800 <= c2 <= 0xDFFF) and not (0xD800 <= c3 <= 0xDFFF)
    """
    return split_lines_laws(chr(c1) + chr(c2) + chr(c3))


def split_lines_fresh(c1: int, c2: int, keep: bool) -> bool:
    """
    require: 0 <= c1 < 0x110000 and 0 <= c2 < 0x110000 and not (0xD800 <= c1 <= 0xDFFF) and not (0xD800 <= c2 <= 0xDFFF)
    """
    s = chr(c1) + chr(c2)
    a = split_lines(s, keepends=keep)
    want = list(a)
    a.append('junk')
    a[0] = 'edited'
    b = split_lines(chr(c1) + chr(c2), keepends=keep)
    if b != want:
        return _no('split_lines(%r, keepends=%r) returned %r after a caller edited an earlier result (expected %r)' % (s, keep, b, want))
    return True


if TWIN == 'split-loses-fs':
    import parso.utils as _u
    _u._NON_LINE_BREAKS = tuple(x for x in _u._NON_LINE_BREAKS if x != '\x1c')


def split_lines_fresh_native(i1: int, i2: int, keep: bool) -> bool:
    """
    require: 0 <= i1 < 6 and 0 <= i2 < 6
    """
    # the same law with the interpreter's own caches live (CrossHair neutralises functools caches while tracing):
    # selectors realised, then native execution
    try:
        from crosshair.core import realize
        from crosshair.tracers import NoTracing
    except ImportError:
        return split_lines_fresh(ord('a\n\r\x0c b'[i1]), ord('a\n\r\x0c b'[i2]), keep)
    i1, i2, keep = realize(i1), realize(i2), realize(keep)
    with NoTracing():
        return split_lines_fresh(ord('a\n\r\x0c b'[i1]), ord('a\n\r\x0c b'[i2]), keep)
