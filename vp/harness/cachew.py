"""X harnesses for the parse cache (C16, C17): the real Grammar.parse / parso.cache code against a
stubbed environment.

Environment stubs (all part of the claim): the names `os`, `open`, `pickle`, `time` *as seen from the
parso.cache module* are rebound to an in-memory world (file system with mtime/atime, clock, pickling by
reference-copy), cache directories are FakePath objects, source files are read through a FileIO subclass,
the parser proper is replaced by a stub that returns "tree of (grammar, text)" and the diff parser by a
stub that updates that tree in place.  load_module, _load_from_file_system, _save_to_file_system,
_set_cache_item, try_to_save_module, _get_hashed_path, _get_cache_directory_path,
_remove_cache_and_update_lock, clear_inactive_cache, _touch and Grammar.parse are the real code.

Time is modelled in integer milliseconds wrapped in `Ms` (int(t) is the whole second), so that second-
granular comparisons differ from exact ones.  Every write to a source file strictly advances the clock.
"""
import hashlib
import os as _real_os

import parso.cache as C
from parso.grammar import Grammar
from parso.file_io import FileIO

WHY = None
TWIN = _real_os.environ.get('VP_TWIN')


def _apply_twin():
    """built-in broken twins (vacuity guards): realistic one-line breakages of parso/cache.py"""
    import inspect
    def patch(fn, old, new):
        src = inspect.getsource(fn)
        assert old in src, (fn, old)
        exec(compile(src.replace(old, new), 'twin', 'exec'), C.__dict__)
        import parso.grammar as G
        if hasattr(G, fn.__name__):
            setattr(G, fn.__name__, C.__dict__[fn.__name__])
    if TWIN == 'mem-compare-strict':
        patch(C.load_module, 'if p_time <= module_cache_item.change_time:', 'if True:')
    elif TWIN == 'key-without-grammar':
        patch(C._get_hashed_path, "'%s-%s.pkl' % (hashed_grammar, file_hash)", "'%s-%s.pkl' % ('g', file_hash)")
    elif TWIN == 'only-filenotfound':
        patch(C._load_from_file_system, 'except Exception as e:', 'except FileExistsError as e:')
    elif TWIN == 'cleanup-by-mtime':
        patch(C.clear_inactive_cache, 'st_atime', 'st_mtime')


def _no(why):
    global WHY
    WHY = why
    return False


class Ms:
    """a point in time / duration in milliseconds; arithmetic with plain numbers treats them as seconds"""
    __slots__ = ('ms',)

    def __init__(self, ms):
        self.ms = ms

    @staticmethod
    def _ms(o):
        return o.ms if isinstance(o, Ms) else o * 1000

    def __lt__(self, o): return self.ms < Ms._ms(o)
    def __le__(self, o): return self.ms <= Ms._ms(o)
    def __gt__(self, o): return self.ms > Ms._ms(o)
    def __ge__(self, o): return self.ms >= Ms._ms(o)
    def __eq__(self, o): return isinstance(o, (Ms, int, float)) and self.ms == Ms._ms(o)
    def __ne__(self, o): return not self.__eq__(o)
    def __hash__(self): return hash(self.ms)
    def __add__(self, o): return Ms(self.ms + Ms._ms(o))
    __radd__ = __add__
    def __sub__(self, o): return Ms(self.ms - Ms._ms(o))
    def __int__(self): return self.ms // 1000
    def __float__(self): return self.ms / 1000
    def __round__(self, n=None): return self.ms // 1000
    def __repr__(self): return 'Ms(%r)' % (self.ms,)


class Tree:
    """what the stub parser returns: determined by grammar and text"""
    def __init__(self, gid, text):
        self.gid = gid
        self.text = text
        self._used_names = None


class StubParser:
    gid = None

    def __init__(self, pgen, error_recovery=True, start_nonterminal='file_input'):
        pass

    def parse(self, tokens):
        return Tree(self.gid, ''.join(tokens))


class StubDiffParser:
    def __init__(self, pgen, tokenizer, module):
        self.module = module

    def update(self, old_lines, new_lines):
        # the real DiffParser mutates the cached module in place; if the cached lines are not the
        # lines of the cached tree, the real one corrupts the tree: model that as a poisoned text
        if ''.join(old_lines) != self.module.text:
            self.module.text = '<corrupted: cached lines do not belong to cached tree>'
        else:
            self.module.text = ''.join(new_lines)
        return self.module


def make_grammar(gid):
    g = Grammar.__new__(Grammar)
    g._pgen_grammar = None
    g._parser = type('P%d' % gid, (StubParser,), {'gid': gid})
    g._tokenizer = lambda lines: list(lines)
    g._diff_parser = StubDiffParser
    g._hashed = 'hash%d' % gid
    g._start_nonterminal = 'file_input'
    g._error_normalizer_config = None
    return g


GRAMMARS = [make_grammar(0), make_grammar(1)]
if TWIN:
    _apply_twin()


class FakePath:
    def __init__(self, world, s):
        self.w = world
        self.s = s

    def joinpath(self, name):
        return FakePath(self.w, self.s + '/' + str(name))

    def exists(self):
        return self.s in self.w.dirs or self.s in self.w.files

    def is_dir(self):
        return self.s in self.w.dirs

    def __str__(self):
        return self.s

    def __fspath__(self):
        return self.s

    def __eq__(self, o):
        return isinstance(o, FakePath) and o.s == self.s

    def __hash__(self):
        return hash(self.s)


class Entry:
    __slots__ = ('obj', 'mtime', 'atime', 'torn')

    def __init__(self, obj, mtime, atime, torn=None):
        self.obj, self.mtime, self.atime, self.torn = obj, mtime, atime, torn


class Fault(Exception):
    pass


class World:
    def __init__(self, clock_ms=10000):
        self.clock = clock_ms            # ms
        self.files = {}                  # cache-side files: path str -> Entry
        self.dirs = set()
        self.src = {}                    # source files: name -> [version, mtime_ms]
        self.faults = {}                 # primitive name -> exception instance to raise (once)
        self.log = []
        self.inflight = None             # name of source file to rewrite right after its next read()
        self.torn_exc = EOFError('Ran out of input')
        self.use_default_path = False

    def now(self):
        return Ms(self.clock)

    def fault(self, name):
        e = self.faults.pop(name, None)
        if e is not None:
            self.log.append('fault ' + name)
            raise e

    def write_src(self, name):
        self.clock += 1
        v = self.src.get(name, [0, 0])[0] + 1
        self.src[name] = [v, self.clock]

    def touch_src(self, name):
        self.clock += 1
        self.src[name][1] = self.clock

    def content(self, name):
        return 'src %s v%d\n' % (name, self.src[name][0])


class _FakeFile:
    def __init__(self, w, path, mode):
        self.w, self.path, self.mode = w, path, mode

    def __enter__(self):
        return self

    def __exit__(self, *a):
        return False

    def close(self):
        pass


class FakeOS:
    """`os` as seen from parso.cache"""
    def __init__(self, w):
        self.w = w
        self.path = self

    # os.path
    def getmtime(self, p):
        self.w.fault('getmtime')
        e = self.w.files.get(str(p))
        if e is None:
            raise FileNotFoundError(str(p))
        return Ms(e.mtime)

    def join(self, a, *b):
        return '/'.join([str(a)] + [str(x) for x in b])

    # os
    def makedirs(self, p, *a, **k):
        self.w.fault('makedirs')
        s = str(p)
        parts = s.split('/')
        for i in range(2, len(parts) + 1):
            self.w.dirs.add('/'.join(parts[:i]))

    def listdir(self, p):
        s = str(p) + '/'
        out = []
        for d in sorted(self.w.dirs | set(self.w.files)):
            if d.startswith(s) and '/' not in d[len(s):]:
                out.append(d[len(s):])
        return out

    def scandir(self, p):
        self.w.fault('scandir')
        s = str(p) + '/'
        if str(p) not in self.w.dirs:
            raise FileNotFoundError(str(p))
        out = []
        for f in sorted(self.w.files):
            if f.startswith(s) and '/' not in f[len(s):]:
                out.append(_DirEntry(self.w, f))
        for d in sorted(self.w.dirs):
            if d.startswith(s) and '/' not in d[len(s):]:
                out.append(_DirEntry(self.w, d, True))
        return out

    def isdir(self, p):
        return str(p) in self.w.dirs

    def exists(self, p):
        return str(p) in self.w.dirs or str(p) in self.w.files

    def remove(self, p):
        if not isinstance(p, (str, bytes)) and not hasattr(p, '__fspath__'):
            raise TypeError('remove: path should be string, bytes or os.PathLike, not %s' % type(p).__name__)
        self.w.fault('remove')
        if str(p) not in self.w.files:
            raise FileNotFoundError(str(p))
        del self.w.files[str(p)]
        self.w.log.append('remove ' + str(p))

    def utime(self, p, times=None):
        self.w.fault('utime')
        e = self.w.files.get(str(p))
        if e is None:
            raise FileNotFoundError(str(p))
        if times is None:
            e.mtime = e.atime = self.w.clock
        else:
            e.atime, e.mtime = Ms._ms(times[0]), Ms._ms(times[1])

    def getenv(self, *a):
        return _real_os.getenv(*a)


class _Stat:
    def __init__(self, e):
        self.st_atime, self.st_mtime = Ms(e.atime), Ms(e.mtime)


class _DirEntry:
    def __init__(self, w, path, isdir=False):
        self.w, self.path = w, path
        self.name = path.rsplit('/', 1)[1]
        self._isdir = isdir

    def is_dir(self):
        return self._isdir

    def is_file(self):
        return not self._isdir

    def stat(self):
        self.w.fault('stat')
        if self._isdir:
            return _Stat(Entry(None, 0, self.w.clock))
        if self.path not in self.w.files:
            raise FileNotFoundError(self.path)
        return _Stat(self.w.files[self.path])


class FakeShutil:
    def __init__(self, w):
        self.w = w

    def rmtree(self, p, *a, **k):
        pre = str(p)
        if pre not in self.w.dirs:
            raise FileNotFoundError(pre)
        for f in [f for f in self.w.files if f.startswith(pre + '/')]:
            del self.w.files[f]
            self.w.log.append('rmtree removed ' + f)
        for d in [d for d in self.w.dirs if d == pre or d.startswith(pre + '/')]:
            self.w.dirs.discard(d)


class FakePickle:
    HIGHEST_PROTOCOL = 5

    class UnpicklingError(Exception):
        pass

    def __init__(self, w):
        self.w = w

    def dump(self, item, f, protocol=None):
        w = self.w
        e = w.faults.pop('dump', None)
        if e is not None:
            # a crash / full disk in the middle of writing: the final name holds a torn file
            w.files[f.path].torn = True
            w.log.append('torn ' + f.path)
            raise e
        copy = C._NodeCacheItem(Tree(item.node.gid, item.node.text), list(item.lines), item.change_time)
        copy.last_used = item.last_used
        w.files[f.path].obj = copy
        w.files[f.path].torn = None

    def load(self, f):
        w = self.w
        ent = w.files[f.path]
        ent.atime = w.clock
        if ent.torn is not None:
            raise w.torn_exc
        it = ent.obj
        copy = C._NodeCacheItem(Tree(it.node.gid, it.node.text), list(it.lines), it.change_time)
        copy.last_used = it.last_used
        return copy


def make_open(w):
    def fake_open(path, mode='r', *a, **k):
        p = str(path)
        if 'r' in mode:
            w.fault('open_r')
            if p not in w.files:
                raise FileNotFoundError(p)
            return _FakeFile(w, p, mode)
        w.fault('open_w')
        d = p.rsplit('/', 1)[0]
        if d not in w.dirs:
            raise FileNotFoundError(p)
        if 'a' in mode and p in w.files:
            return _FakeFile(w, p, mode)
        # opening for writing truncates the final name at once
        w.files[p] = Entry(None, w.clock, w.clock, torn=True)
        return _FakeFile(w, p, mode)
    return fake_open


class FakeTime:
    def __init__(self, w):
        self.w = w

    def time(self):
        return self.w.now()


class SrcIO(FileIO):
    def __init__(self, w, name):
        self.w = w
        self.name = name
        self.path = FakePath(w, '/src/' + name)

    def read(self):
        r = self.w.content(self.name)
        if self.w.inflight == self.name:
            self.w.inflight = None
            self.w.write_src(self.name)     # the file is rewritten while the parse is in flight
        return r

    def get_last_modified(self):
        if self.name not in self.w.src:
            return None
        return Ms(self.w.src[self.name][1])


class Installed:
    """context manager: rebinds the environment of parso.cache to the world"""
    def __init__(self, w, size_trigger=None):
        self.w = w
        self.size_trigger = size_trigger

    def __enter__(self):
        self.saved = {k: C.__dict__.get(k, _MISSING) for k in ('os', 'open', 'pickle', 'time', 'shutil', '_CACHED_SIZE_TRIGGER',
                                                             '_default_cache_path')}
        C.os = FakeOS(self.w)
        C.shutil = FakeShutil(self.w)
        C._default_cache_path = FakePath(self.w, '/cache0')     # the default location, inside the model
        C.open = make_open(self.w)
        C.pickle = FakePickle(self.w)
        C.time = FakeTime(self.w)
        import parso.grammar as _G
        self.gtime = _G.__dict__.get('time', _MISSING)
        _G.time = FakeTime(self.w)
        if self.size_trigger is not None:
            C._CACHED_SIZE_TRIGGER = self.size_trigger
        self.cache_saved = dict(C.parser_cache)
        C.parser_cache.clear()
        # any other module-level container of parso.cache (none today; a change may add one) starts as at import
        for name, (obj, snap) in _IMPORT_STATE.items():
            _restore(obj, snap)
        for name, val in list(C.__dict__.items()):
            if name not in _IMPORT_STATE and name != 'parser_cache' and isinstance(val, (dict, set, list)) \
                    and not name.startswith('__'):
                _IMPORT_STATE[name] = (val, type(val)())     # created after import: assume empty at start
                _restore(val, type(val)())
        return self

    def __exit__(self, *a):
        for k, v in self.saved.items():
            if v is _MISSING:
                C.__dict__.pop(k, None)
            else:
                C.__dict__[k] = v
        C.parser_cache.clear()
        C.parser_cache.update(self.cache_saved)
        import parso.grammar as _G
        if self.gtime is _MISSING:
            _G.__dict__.pop('time', None)
        else:
            _G.time = self.gtime
        return False


_MISSING = object()
FILES = ['mod.py', 'Mod.py']        # differ only in case: distinct files on a case-sensitive file system


def _restore(obj, snap):
    if isinstance(obj, list):
        obj[:] = snap
    else:
        obj.clear()
        obj.update(snap)


import copy as _copy
_IMPORT_STATE = {n: (v, _copy.copy(v)) for n, v in C.__dict__.items()
                 if isinstance(v, (dict, set, list)) and not n.startswith('__') and n != 'parser_cache'}


def do_parse(w, f, g, d, mode):
    """mode 0: cache, 1: cache+diff_cache, 2: diff_cache only, 3: no cache"""
    io = SrcIO(w, FILES[f])
    cp = FakePath(w, '/cache%d' % d)
    if w.use_default_path and d == 0:
        cp = None                  # the default cache location (same directory in the model)
    return GRAMMARS[g].parse(file_io=io, cache=mode in (0, 1), diff_cache=mode in (1, 2), cache_path=cp)


def parse_ok(w, f, g, d, mode):
    want = w.content(FILES[f])
    m = do_parse(w, f, g, d, mode)
    if not isinstance(m, Tree):
        return _no('parse returned %r' % (m,))
    if m.gid != g:
        return _no('tree of grammar %d served for grammar %d' % (m.gid, g))
    if m.text != want:
        return _no('parse(%s, grammar %d, cache dir %d, mode %d) returned the tree of %r, current content is %r'
                   % (FILES[f], g, d, mode, m.text, want))
    return True


# -------------------------------------------------------------------------------------------------
# bounded histories from the initial (empty) state
def _step(w, o, f, g, d, m, dt):
    """o: 0 write, 1 parse, 2 drop memory cache (new process), 3 delete cache dir, 4 touch, 5 nothing"""
    w.clock += dt
    if o == 0:
        w.write_src(FILES[f])
    elif o == 1:
        return parse_ok(w, f, g, d, m)
    elif o == 2:
        C.parser_cache.clear()
    elif o == 3:
        pre = '/cache%d' % d
        for p in [p for p in w.files if p.startswith(pre + '/')]:
            del w.files[p]
        for p in [p for p in w.dirs if p == pre or p.startswith(pre + '/')]:
            w.dirs.discard(p)
    elif o == 4:
        w.touch_src(FILES[f])
    return True


def _sel(w, sel, f, g, d, dt):
    """sel: 0 write, 1..4 parse with mode 0..3, 5 new process, 6 delete cache dir, 7 touch"""
    if 1 <= sel <= 4:
        return _step(w, 1, f, g, d, sel - 1, dt)
    return _step(w, {0: 0, 5: 2, 6: 3, 7: 4}[sel], f, g, d, 0, dt)


def history3(s1: int, t1: int, s2: int, t2: int, s3: int, t3: int) -> bool:
    """
    require: 0 <= s1 <= 7 and 0 <= s2 <= 7 and 0 <= s3 <= 7 and t1 >= 0 and t2 >= 0 and t3 >= 0
    """
    # one file, one grammar, one cache directory; all four parse modes; unbounded time gaps (ms);
    # starts from a populated cache (one cached parse)
    w = World()
    w.write_src(FILES[0])
    with Installed(w):
        if not parse_ok(w, 0, 0, 0, 0):
            return False
        for sel, t in ((s1, t1), (s2, t2), (s3, t3)):
            if not _sel(w, sel, 0, 0, 0, t):
                return False
    return True


def history4(s1: int, s2: int, s3: int, s4: int, t: int) -> bool:
    """
    require: 0 <= s1 <= 7 and 0 <= s2 <= 7 and 0 <= s3 <= 7 and 0 <= s4 <= 7 and t >= 0
    """
    # as history3 with four steps and one symbolic time gap before the last step
    w = World()
    w.write_src(FILES[0])
    with Installed(w):
        if not parse_ok(w, 0, 0, 0, 0):
            return False
        for sel, dt in ((s1, 0), (s2, 0), (s3, 0), (s4, t)):
            if not _sel(w, sel, 0, 0, 0, dt):
                return False
    return True


def history_keys(dim: int, o1: int, k1: int, o2: int, k2: int, o3: int, k3: int, o4: int, k4: int) -> bool:
    """
    require: 0 <= dim <= 2 and 0 <= o1 <= 2 and 0 <= o2 <= 2 and 0 <= o3 <= 2 and 0 <= o4 <= 2
    require: 0 <= k1 <= 1 and 0 <= k2 <= 1 and 0 <= k3 <= 1 and 0 <= k4 <= 1
    """
    # two keys that differ in exactly one dimension (dim 0: file, 1: grammar, 2: cache dir);
    # ops: 0 write / 1 parse with cache / 2 new process
    w = World()
    w.write_src(FILES[0])
    w.write_src(FILES[1])
    with Installed(w):
        for o, k in ((o1, k1), (o2, k2), (o3, k3), (o4, k4)):
            f, g, d = (k, 0, 0) if dim == 0 else ((0, k, 0) if dim == 1 else (0, 0, k))
            if not _step(w, o, f, g, d, 0, 0):
                return False
    return True


def history_inflight(o1: int, o2: int, o3: int, fl1: bool, fl2: bool, t1: int, t2: int) -> bool:
    """
    require: 0 <= o1 <= 2 and 0 <= o2 <= 2 and 0 <= o3 <= 2 and t1 >= 0 and t2 >= 0
    """
    # a write may land between read() and get_last_modified() of an in-flight parse (fl = it does)
    w = World()
    w.write_src(FILES[0])
    with Installed(w):
        for o, fl, t in ((o1, fl1, t1), (o2, fl2, t2), (o3, False, 0)):
            w.clock += t
            if o == 1:
                if fl:
                    w.inflight = FILES[0]
                    do_parse(w, 0, 0, 0, 0)     # result of the racing parse itself is not judged
                    w.inflight = None
                elif not parse_ok(w, 0, 0, 0, 0):
                    return False
            elif not _step(w, o, 0, 0, 0, 0, 0):
                return False
    return True


def history_inflight_known(o1, o2, o3, fl1, fl2, t1, t2):
    if (fl1 and o1 == 1) or (fl2 and o2 == 1):
        return 'cache-stale-after-inflight-write'
    return None


# -------------------------------------------------------------------------------------------------
# one step from an arbitrary valid state (inductive invariant)
def _item(gid, name, version, change_ms, used_ms):
    text = 'src %s v%d\n' % (name, version)
    it = C._NodeCacheItem(Tree(gid, text), [text, ''], Ms(change_ms))   # = split_lines(text, keepends=True)
    it.last_used = Ms(used_ms)
    return it


def _entry_valid(w, it, gid, name, stamp_ms, what):
    """the invariant for one cache entry (memory: stamp = change_time; disk: stamp = mtime of the pickle)"""
    v, mt = w.src[name]
    if it.node.gid != gid:
        return _no('%s: entry of grammar %d filed under grammar %d' % (what, it.node.gid, gid))
    if ''.join(it.lines) != it.node.text:
        return _no('%s: cached lines are not the lines of the cached tree' % what)
    if not it.node.text.startswith('src %s v' % name):
        return _no('%s: entry holds the tree of another file: %r' % (what, it.node.text))
    cur = w.content(name)
    if it.node.text != cur and not (stamp_ms < mt):
        return _no('%s: stale entry (%r, current %r) is not detectably outdated: stamp %r >= file mtime %r'
                   % (what, it.node.text, cur, stamp_ms, mt))
    return True


def invariant(w):
    for gi, g in enumerate(GRAMMARS):
        for path, it in C.parser_cache.get(g._hashed, {}).items():
            name = str(path).rsplit('/', 1)[1]
            if not isinstance(it.change_time, Ms):
                return _no('memory entry without the file time: %r' % (it.change_time,))
            if not _entry_valid(w, it, gi, name, it.change_time.ms, 'memory[%d][%s]' % (gi, name)):
                return False
    for p, e in w.files.items():
        if not p.endswith('.pkl'):
            continue
        if e.torn is not None:
            continue          # a torn file is judged by C17 (must be a miss), not by the freshness invariant
        fname = p.rsplit('/', 1)[1]
        owner = None
        for gi, g in enumerate(GRAMMARS):
            for name in FILES:
                if fname == '%s-%s.pkl' % (g._hashed, hashlib.sha256(('/src/' + name).encode('utf-8')).hexdigest()):
                    owner = (gi, name)
        if owner is None:
            return _no('pickle under a file name no key maps to: %s' % p)
        if not _entry_valid(w, e.obj, owner[0], owner[1], e.mtime, 'disk[%s]' % p):
            return False
    return True


def _pkl_path(d, g, name):
    return '/cache%d/%s/%s-%s.pkl' % (d, C._VERSION_TAG, GRAMMARS[g]._hashed,
                                     hashlib.sha256(('/src/' + name).encode('utf-8')).hexdigest())


def _mk_state(w, has_mem, mem_v, mem_ct, mem_lu, has_pkl, pkl_v, pkl_mt, f, g, d):
    """puts a memory entry and/or a pickle for key (f, g, d) into the world"""
    name = FILES[f]
    if has_mem:
        C.parser_cache.setdefault(GRAMMARS[g]._hashed, {})[FakePath(w, '/src/' + name)] = \
            _item(g, name, mem_v, mem_ct, mem_lu)
    if has_pkl:
        w.dirs.update(['/cache%d' % d, '/cache%d/%s' % (d, C._VERSION_TAG)])
        w.files[_pkl_path(d, g, name)] = Entry(_item(g, name, pkl_v, pkl_mt, pkl_mt), pkl_mt, pkl_mt)


def step_same_key(sel: int, dt: int, mt: int, has_mem: bool, mem_cur: bool, mem_ct: int, mem_lu: int,
                  has_pkl: bool, pkl_cur: bool, pkl_mt: int, lock_mt: int, now: int) -> bool:
    """
    require: 0 <= sel <= 7 and dt >= 0
    require: 0 <= mt <= now and 0 <= mem_ct <= now and 0 <= mem_lu <= now and 0 <= pkl_mt <= now and 0 <= lock_mt <= now
    """
    # arbitrary valid pre-state for ONE key (file a.py at version 2, grammar 0, cache dir 0): optional memory
    # entry / pickle holding the current or the previous version with arbitrary time stamps (ms); then one
    # arbitrary operation; the served tree must be current and the invariant must hold again
    w = World(now)
    w.src[FILES[0]] = [2, mt]
    with Installed(w):
        _mk_state(w, has_mem, 2 if mem_cur else 1, mem_ct, mem_lu, has_pkl, 2 if pkl_cur else 1, pkl_mt, 0, 0, 0)
        if has_pkl:
            w.files['/cache0/PARSO-CACHE-LOCK'] = Entry(None, lock_mt, lock_mt)
        if not invariant(w):
            return True          # pre-state outside the invariant: nothing to show
        if not _sel(w, sel, 0, 0, 0, dt):
            return False
        if not invariant(w):
            return _no('after step %d the cache invariant is broken: %s' % (sel, WHY))
    return True


def step_other_key(dim: int, mode: int, mt0: int, mt1: int, has_mem: bool, mem_cur: bool, mem_ct: int,
                   has_pkl: bool, pkl_cur: bool, pkl_mt: int, now: int) -> bool:
    """
    require: 0 <= dim <= 2 and 0 <= mode <= 1
    require: 0 <= mt0 <= now and 0 <= mt1 <= now and 0 <= mem_ct <= now and 0 <= pkl_mt <= now
    """
    # the cache holds entries for ANOTHER key that differs in exactly one dimension (file / grammar / cache
    # dir); parsing key K0 must return K0's tree and leave the other key's entries valid
    w = World(now)
    f1, g1, d1 = (1, 0, 0) if dim == 0 else ((0, 1, 0) if dim == 1 else (0, 0, 1))
    w.src[FILES[0]] = [2, mt0]
    if f1 == 1:
        w.src[FILES[1]] = [2, mt1]
    with Installed(w):
        _mk_state(w, has_mem and dim != 2, 2 if mem_cur else 1, mem_ct, mem_ct, has_pkl, 2 if pkl_cur else 1,
                  pkl_mt, f1, g1, d1)
        if not invariant(w):
            return True
        if not parse_ok(w, 0, 0, 0, mode):
            return False
        if not invariant(w):
            return _no('after parsing another key the cache invariant is broken: %s' % WHY)
        # and the other key still gets its own tree
        if not parse_ok(w, f1, g1, d1, mode):
            return False
    return True


def step_eviction(lu0: int, lu1: int, ct0: int, ct1: int, now: int, dt: int, mode: int) -> bool:
    """
    require: 0 <= lu0 <= now and 0 <= lu1 <= now and 0 <= ct0 <= now and 0 <= ct1 <= now and dt >= 0
    require: 0 <= mode <= 1
    """
    # size-triggered eviction (trigger lowered to 2 entries): entries of two files with arbitrary last-used
    # times; a parse of a third key triggers the sweep; afterwards everything served must be current
    w = World(now)
    w.src[FILES[0]] = [1, 0]
    w.src[FILES[1]] = [1, 0]
    with Installed(w, size_trigger=2):
        _mk_state(w, True, 1, ct0, lu0, False, 1, 0, 0, 0, 0)
        _mk_state(w, True, 1, ct1, lu1, False, 1, 0, 1, 0, 0)
        w.clock += dt
        if not parse_ok(w, 0, 1, 0, mode):
            return False
        if not invariant(w):
            return False
        for f in (0, 1):
            for g in (0, 1):
                if not parse_ok(w, f, g, 0, mode):
                    return False
        if not invariant(w):
            return False
    return True


# -------------------------------------------------------------------------------------------------
# C17: torn / corrupt cache files and failing file operations
import pickle as _real_pickle
FakePickle.UnpicklingError = _real_pickle.UnpicklingError

TORN_KINDS = [EOFError('Ran out of input'), _real_pickle.UnpicklingError('pickle data was truncated'),
              AttributeError("Can't get attribute"), ImportError('No module named x'), IndexError('pop from empty list'),
              KeyError(42), ValueError('unsupported pickle protocol: 110'), TypeError('a bytes-like object is required'),
              UnicodeDecodeError('utf-8', b'\xff', 0, 1, 'invalid start byte'), MemoryError()]
OS_KINDS = [OSError(28, 'No space left on device'), PermissionError(13, 'Permission denied'),
            FileNotFoundError(2, 'No such file or directory'), OSError(30, 'Read-only file system'),
            OSError(5, 'Input/output error')]
PRIMS = ['getmtime', 'open_r', 'makedirs', 'open_w', 'dump', 'utime', 'scandir', 'remove', 'stat']
# realistic failures per primitive (indices into OS_KINDS): 0 ENOSPC, 1 EACCES, 2 ENOENT (vanished), 3 EROFS, 4 EIO
REALISTIC = {'getmtime': (2,), 'open_r': (1, 2), 'makedirs': (0, 1, 3), 'open_w': (0, 1, 2, 3), 'dump': (0, 4),
             'utime': (1, 2, 3), 'scandir': (1, 2), 'remove': (1, 2, 3), 'stat': (2,)}


def _parse_quiet(w, f, g, d, mode):
    import warnings
    with warnings.catch_warnings():
        warnings.simplefilter('ignore')
        return parse_ok(w, f, g, d, mode)


def torn_load(kind: int, wrong_type: bool, mode: int, mt: int, pkl_mt: int, now: int, has_mem: bool) -> bool:
    """
    require: 0 <= kind < len(TORN_KINDS) and 0 <= mode <= 1
    require: 0 <= mt <= pkl_mt <= now
    """
    # the pickle of the key is torn / garbage (unpickling raises any of the exceptions real corrupt pickles
    # raise, or yields an object of the wrong type) and looks fresh (mtime >= file mtime)
    w = World(now)
    w.src[FILES[0]] = [2, mt]
    w.torn_exc = TORN_KINDS[kind]
    with Installed(w):
        _mk_state(w, False, 1, 0, 0, True, 2, pkl_mt, 0, 0, 0)
        ent = w.files[_pkl_path(0, 0, FILES[0])]
        if wrong_type:
            ent.obj = 42
            C.pickle.load = lambda f: 42
        else:
            ent.torn = True
        if not _parse_quiet(w, 0, 0, 0, mode):
            return False
        # the save of this parse must have repaired the entry: a new process gets a disk hit with the right tree
        if w.files[_pkl_path(0, 0, FILES[0])].torn is not None:
            return _no('the torn pickle was not repaired by the following successful save')
        if wrong_type:
            del C.pickle.load
        C.parser_cache.clear()
        if not _parse_quiet(w, 0, 0, 0, mode):
            return False
        if not invariant(w):
            return False
    return True


def op_fault(prim: int, kind: int, mode: int, has_pkl: bool, pkl_cur: bool, lock_old: bool, default_path: bool) -> bool:
    """
    require: 0 <= prim < len(PRIMS) and 0 <= kind < len(OS_KINDS) and 0 <= mode <= 1
    """
    now = 10 ** 10
    # one file operation of the load/save/clean-up path fails with an OSError of any kind (full disk, read-only
    # or vanished directory, I/O error, a file another process removed): the parse must still succeed with the
    # current tree, and a later parse without faults must be right and repair the entry
    if kind not in REALISTIC[PRIMS[prim]]:
        return True
    w = World(now)
    w.use_default_path = default_path
    w.src[FILES[0]] = [2, 500]
    with Installed(w):
        if PRIMS[prim] == 'makedirs':
            has_pkl = False            # the version directory does not exist yet and cannot be created
        else:
            # another module's pickle so that clean-up has something to look at
            w.dirs.update(['/cache0', '/cache0/%s' % C._VERSION_TAG])
            w.files['/cache0/%s/other.pkl' % C._VERSION_TAG] = Entry(_item(0, FILES[1], 1, 0, 0), 0, 0)
            w.files['/cache0/PARSO-CACHE-LOCK'] = Entry(None, 0 if lock_old else now, 0 if lock_old else now)
        _mk_state(w, False, 1, 0, 0, has_pkl, 2 if pkl_cur else 1, 1000 if pkl_cur else 100, 0, 0, 0)
        w.src[FILES[1]] = [1, 0]
        w.faults[PRIMS[prim]] = OS_KINDS[kind]
        if not _parse_quiet(w, 0, 0, 0, mode):
            return False
        w.faults.clear()
        w.write_src(FILES[0])
        C.parser_cache.clear()
        if not _parse_quiet(w, 0, 0, 0, mode):
            return False
        ent = w.files.get(_pkl_path(0, 0, FILES[0]))
        if ent is None or ent.torn is not None:
            return _no('entry not repaired by a later successful save')
        C.parser_cache.clear()
        if not _parse_quiet(w, 0, 0, 0, mode):
            return False
    return True


def dir_vanishes(s1: int, s2: int, mode: int) -> bool:
    """
    require: 0 <= s1 <= 1 and 0 <= s2 <= 1 and 0 <= mode <= 1
    """
    # cached parse; the cache directory is removed from outside (other process / clean-up tool); optional write;
    # the next parse must succeed AND its save must re-create the entry (a later save repairs)
    w = World()
    w.write_src(FILES[0])
    with Installed(w):
        if not _parse_quiet(w, 0, 0, 0, mode):
            return False
        _step(w, 3, 0, 0, 0, 0, 0)
        if s1:
            w.write_src(FILES[0])
        if s2:
            C.parser_cache.clear()
        if not s1 and not s2:
            w.touch_src(FILES[0])
        if not _parse_quiet(w, 0, 0, 0, mode):
            return False
        ent = w.files.get(_pkl_path(0, 0, FILES[0]))
        saved = s1 or s2 or mode == 0      # (touch only + diff_cache: unchanged lines, nothing is saved)
        if saved and (ent is None or ent.torn is not None):
            return _no('after the cache directory vanished the next successful save did not re-create the entry')
        if not invariant(w):
            return False
    return True


def cleanup_keeps_active(at0: int, mt0: int, at1: int, mt1: int, lock_mt: int, now: int, dt: int) -> bool:
    """
    require: 0 <= at0 <= now and 0 <= mt0 <= now and 0 <= at1 <= now and 0 <= mt1 <= now and 0 <= lock_mt <= now and dt >= 0
    """
    # two other pickles with arbitrary access/modification times and an arbitrary lock time; a save triggers
    # the maintenance; no entry accessed within the survival period may disappear or change
    w = World(now)
    w.src[FILES[0]] = [1, 0]
    w.src[FILES[1]] = [1, 0]
    tag = C._VERSION_TAG
    with Installed(w):
        w.dirs.update(['/cache0', '/cache0/' + tag])
        p0, p1 = _pkl_path(0, 1, FILES[0]), _pkl_path(0, 1, FILES[1])
        w.files[p0] = Entry(_item(1, FILES[0], 1, mt0, mt0), mt0, at0)
        w.files[p1] = Entry(_item(1, FILES[1], 1, mt1, mt1), mt1, at1)
        w.files['/cache0/PARSO-CACHE-LOCK'] = Entry(None, lock_mt, lock_mt)
        # the entry of another parso installation / interpreter sharing the cache root, just used
        other = '/cache0/cpython-39-99/%s' % p0.rsplit('/', 1)[1]
        w.dirs.add('/cache0/cpython-39-99')
        w.files[other] = Entry(_item(1, FILES[0], 1, now, now), now, now)
        w.clock += dt
        if not _parse_quiet(w, 0, 0, 0, 0):
            return False
        if dt < C._CACHED_FILE_MAXIMUM_SURVIVAL * 1000 and other not in w.files:
            return _no('clean-up removed the freshly used entry of another installation: %s' % other)
        limit = C._CACHED_FILE_MAXIMUM_SURVIVAL * 1000
        for p, at in ((p0, at0), (p1, at1)):
            if at + limit > w.clock:
                e = w.files.get(p)
                if e is None:
                    return _no('clean-up removed %s although it was accessed %d ms ago (< %d)' % (p, w.clock - at, limit))
                if e.torn is not None or e.obj.node.gid != 1:
                    return _no('clean-up damaged %s' % p)
        if not invariant(w):
            return False
    return True
