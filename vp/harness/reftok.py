"""C10 stream level (partial): parso's tokenizer against the REFERENCE IMPLEMENTATION of the lexical grammar,
the pure-Python Lib/tokenize.py of CPython 3.11 (the last release whose tokenize module is not a wrapper around
the C tokenizer), loaded from the reference interpreter's own stdlib file and executed symbolically next to
parso's tokenizer on the same text."""
import importlib.util
import io
import os

from parso.python.tokenize import tokenize as parso_tokenize
from parso.python.token import PythonTokenTypes as T

WHY = None
_CANDIDATES = ['/root/.pyenv/versions/3.11.7/lib/python3.11/tokenize.py',
               '/root/.pyenv/versions/3.10.13/lib/python3.10/tokenize.py',
               '/opt/veriftools/pyvenv/lib/python3.11/tokenize.py']
REF = None
REF_VERSION = None
for _p in _CANDIDATES + [os.path.join(d, 'tokenize.py') for d in
                         ['/usr/lib/python3.11', '/usr/lib/python3.10']]:
    if os.path.exists(_p):
        _spec = importlib.util.spec_from_file_location('vp_ref_tokenize', _p)
        REF = importlib.util.module_from_spec(_spec)
        _spec.loader.exec_module(REF)
        REF_VERSION = (3, 11) if '3.11' in _p else (3, 10)
        break


def _no(why):
    global WHY
    WHY = why
    return False


def ref_tokens(text):
    """significant tokens of the reference tokenizer, or None if it reports an error for this text"""
    out = []
    try:
        for t in REF.generate_tokens(io.StringIO(text).readline):
            name = REF.tok_name[t.type]
            if name in ('COMMENT', 'NL'):
                continue
            if name == 'ERRORTOKEN':
                return None
            if name == 'NEWLINE' and t.string == '':
                continue              # the implicit NEWLINE the reference adds at the end of a file without one
            if name == 'INDENT':
                # the reference reports the indentation text at column 0, parso a zero-width token at its end
                out.append((name, '', (t.start[0], len(t.string))))
                continue
            out.append((name, t.string, t.start))
    except (REF.TokenError, IndentationError, SyntaxError):
        return None
    return out


def parso_tokens(text, version):
    out = []
    fdepth = 0
    buf = None
    for t in parso_tokenize(text, version_info=version):
        n = t.type.name
        if n == 'FSTRING_START':
            if fdepth == 0:
                buf = [t.string, t.start_pos, t.prefix]
            else:
                buf[0] += t.prefix + t.string
            fdepth += 1
            continue
        if fdepth > 0:
            buf[0] += t.prefix + t.string
            if n == 'FSTRING_END':
                fdepth -= 1
                if fdepth == 0:
                    out.append(('STRING', buf[0], buf[1]))
            continue
        if n in ('ERRORTOKEN', 'ERROR_DEDENT'):
            out.append((n, t.string, t.start_pos))
            continue
        out.append((n, t.string, t.start_pos))
    return out


def same_stream(text, version):
    ref = ref_tokens(text)
    if ref is None:
        return True          # the reference does not tokenize this text without error: outside the property
    depth = 0
    for r in ref:
        if r[0] == 'OP' and r[1] in '([{' and r[1]:
            depth += 1
        elif r[0] == 'OP' and r[1] in ')]}' and r[1]:
            depth -= 1
            if depth < 0:
                return True  # unmatched closing bracket: CPython's own tokenizer rejects it (Lib/tokenize.py does not)
    mine = parso_tokens(text, version)
    if len(ref) != len(mine):
        return _no('reference yields %d significant tokens, parso %d for %r: %r vs %r' % (len(ref), len(mine), text, ref[:8], mine[:8]))
    i = 0
    for r, m in zip(ref, mine):
        if r[0] != m[0] or r[1] != m[1]:
            return _no('token %d of %r: reference %r, parso %r' % (i, text, r, m))
        if r[0] not in ('ENDMARKER', 'DEDENT') and tuple(r[2]) != tuple(m[2]):
            return _no('token %d of %r: reference position %r, parso %r' % (i, text, r, m))
        i += 1
    return True


# valid little programs with a hole: text = pre + chr(c) + post
HOLES = [
    ('x = 1', '0\n'), ('x = 0', '7j\n'), ('x = 1', 'e5\n'), ('x = a ', ' b\n'), ('x = "', '"\n'), ("s = b", "'abc'\n"),
    ('x = "', "a\\\nb\"\ny = 1\n"), ('x = 1 \\\n', '\ny = 2\n'), ('if x:\n', ' y\n z\n'), ('if x:\n  y\n', 'z\n'),
    ('x = (1,\n', ' 2)\n'), ('x = a', '= b\n'), ('x = a ', '= b\n'), ('x', ' 1\n'), ('# c', '\nx\n'), ("x = '''a", "b'''\n"),
    ('x = 1_', '0\n'), ('x = 0x', 'f\n'), ('a.b', 'c\n'), ('x = a *', ' b\n'),
]


def tok_vs_ref(k: int, c: int) -> bool:
    """
    require: 0 <= k < len(HOLES) and 0 <= c < 128
    require: c != 13 and c != 9
    """
    # excluded: a lone CR (Lib/tokenize.py treats it as an ordinary character, the C tokenizer and parso as a line
    # break) and a TAB (the C tokenizer raises TabError for inconsistent tabs/spaces, Lib/tokenize.py does not)
    # both tokenizers are table/regex driven on the same text; the hole ranges over the complete ASCII alphabet,
    # a finite dimension the solver enumerates (realised); after that both run natively
    try:
        from crosshair.core import realize
        from crosshair.tracers import NoTracing
    except ImportError:
        pre, post = HOLES[k]
        return same_stream(pre + chr(c) + post, REF_VERSION)
    k, c = realize(k), realize(c)
    with NoTracing():
        pre, post = HOLES[k]
        return same_stream(pre + chr(c) + post, REF_VERSION)


ALPHA2 = "0123456789abcdefjxoEJ_.+-*/=<>!:;,()[]{}'\"\\# \n"


def tok_vs_ref2(k: int, c1: int, i2: int) -> bool:
    """
    require: 0 <= k < len(HOLES) and 0 <= c1 < 128 and 0 <= i2 < len(ALPHA2)
    require: c1 != 13 and c1 != 9
    """
    try:
        from crosshair.core import realize
        from crosshair.tracers import NoTracing
    except ImportError:
        pre, post = HOLES[k]
        return same_stream(pre + chr(c1) + ALPHA2[i2] + post, REF_VERSION)
    k, c1, i2 = realize(k), realize(c1), realize(i2)
    with NoTracing():
        pre, post = HOLES[k]
        return same_stream(pre + chr(c1) + ALPHA2[i2] + post, REF_VERSION)


def tok_vs_ref2_known(k, c1, i2):
    if c1 == 12 and HOLES[k][0].endswith('\n'):
        return 'indent-formfeed-column'
    if c1 == 92 and ALPHA2[i2] == '\n' and HOLES[k][0].endswith('\n') and HOLES[k][1][:1] in (' ', '\t'):
        return 'indent-after-leading-backslash'
    return None


def tok_vs_ref_known(k, c):
    if c == 12 and HOLES[k][0].endswith('\n'):
        return 'indent-formfeed-column'
    return None
