"""X-unit harnesses for C11: navigation and position lookup against the in-order leaf sequence."""
import os

import parso
from parso.tree import Leaf, Node, BaseNode
from parso.python import tree as pt

from vp.treeoracle import leaves, nodes

WHY = None
TWIN = os.environ.get('VP_TWIN')
if TWIN == 'bisect-strict':
    import inspect as _i
    import parso.tree as _t
    _src = _i.getsource(_t.BaseNode.get_leaf_for_position).replace('if position <= element.end_pos:', 'if position < element.end_pos:')
    _ns = dict(_t.__dict__)
    exec(compile(_i.cleandoc('class X:\n' + _src) if False else 'if 1:\n' + _src, 'twin', 'exec'), _ns)
    BaseNode.get_leaf_for_position = _ns['get_leaf_for_position']
if TWIN == 'next-leaf-first-equal':
    # operators compare by value everywhere (index() then finds the first equal sibling)
    pt.Operator.__eq__ = lambda self, other: self.value == (other if isinstance(other, str) else getattr(other, 'value', None))
    pt.Operator.__hash__ = lambda self: hash(self.value)


def _no(why):
    global WHY
    WHY = why
    return False


TEXTS = [
    "def f(a, b=1):\n    return a+b\n\nclass C: pass\nx = (1,\n 2)\n",
    "x = y = z\na - - b\nif a and b and c: pass\n",
    "  x\nif a:\n    b\n  c\nd\n",                       # zero-width INDENT / ERROR_DEDENT error leaves
    "f(x)\nfoo(a,b)\n",
    "def g(*, key, **kw): pass\nlambda a, /, b: a\n",
    "x = 1 +* 2 ?\nfoo($)\n'''a\nb'''\n",
    "if x:\n  if y:\n    z\nw",
    "\ufeff# c\n\n\nx\n\\\ny = f'{a!r:>{w}}'\n",
    "try:\n x\nexcept E as e:\n y\nelif\nfinally:\n z\n",
    "",
    "class A:\n def f(self):\n  (\n  b\n  c\n\n def g(self):\n  d\n ",
    "x = '''a\x0cb\x1c\nc\x85'''\ny = 1\n# h\n\n    import os\n",
    "def f():\n        x\n    y\n  z\n",
    "f(a)[b:c], {d: e for d in g if h}",          # parsed as an expression (eval_input root)
]
TREES = [parso.parse(t, version='3.10') for t in TEXTS[:-1]] + \
    [parso.load_grammar(version='3.10').parse(TEXTS[-1], error_recovery=False, start_symbol='eval_input')]
LEAVES = [leaves(t) for t in TREES]
NODES = [nodes(t) for t in TREES]


def spec_lookup(t, pos, include_prefixes):
    """first leaf in order whose end is at or after pos; None if pos is in its prefix and prefixes are excluded"""
    for l in LEAVES[t]:
        if pos <= l.end_pos:
            if not include_prefixes and pos < l.start_pos:
                return None
            return l
    return None


def lookup(t: int, line: int, col: int, inc: bool) -> bool:
    """
    require: 0 <= t < len(TREES)
    """
    m = TREES[t]
    pos = (line, col)
    inside = (1, 0) <= pos <= m.end_pos
    try:
        got = m.get_leaf_for_position(pos, include_prefixes=inc)
    except ValueError:
        if inside:
            return _no('position %r inside the file rejected' % (pos,))
        return True
    if not inside:
        return _no('position %r outside the file (ends %r) accepted' % (pos, m.end_pos))
    want = spec_lookup(t, pos, inc)
    if got is not want:
        return _no('tree %d position %r include_prefixes=%r: got %r, first leaf with end >= pos is %r' % (t, pos, inc, got, want))
    # name lookup agrees with a linear scan
    name = None
    for l in LEAVES[t]:
        if l.type == 'name' and l.start_pos <= pos <= l.end_pos:
            name = l
            break
    if m.get_name_of_position(pos) is not name:
        return _no('get_name_of_position(%r) = %r, linear scan finds %r' % (pos, m.get_name_of_position(pos), name))
    return True


def nav_leaf(t: int, i: int) -> bool:
    """
    require: 0 <= t < len(TREES) and 0 <= i < 64
    """
    L = LEAVES[t]
    if i >= len(L):
        return True
    l = L[i]
    nxt = L[i + 1] if i + 1 < len(L) else None
    prv = L[i - 1] if i > 0 else None
    if l.get_next_leaf() is not nxt:
        return _no('tree %d leaf #%d %r: next leaf %r, in order %r' % (t, i, l, l.get_next_leaf(), nxt))
    if l.get_previous_leaf() is not prv:
        return _no('tree %d leaf #%d %r: previous leaf %r, in order %r' % (t, i, l, l.get_previous_leaf(), prv))
    if l.get_root_node() is not TREES[t]:
        return _no('root not reachable')
    if l.get_first_leaf() is not l or l.get_last_leaf() is not l:
        return _no('first/last leaf of a leaf')
    # nearest matching ancestor
    p = l.parent
    chain = []
    while p is not None:
        chain.append(p)
        p = p.parent
    for a in chain:
        near = None
        for b in chain:
            if b.type == a.type:
                near = b
                break
        if l.search_ancestor(a.type) is not near:
            return _no('search_ancestor(%r) is not the nearest' % a.type)
    if l.search_ancestor('no_such_type') is not None:
        return _no('search_ancestor found a non-existing type')
    return True


def nav_node(t: int, i: int) -> bool:
    """
    require: 0 <= t < len(TREES) and 0 <= i < 128
    """
    N = NODES[t]
    if i >= len(N):
        return True
    n = N[i]
    ch = getattr(n, 'children', None)
    if ch is not None:
        idx = 0
        for c in ch:
            if c.parent is not n:
                return _no('child %r of %r has parent %r' % (c, n, c.parent))
            if sum(1 for x in ch if x is c) != 1:
                return _no('child listed twice')
            want_next = ch[idx + 1] if idx + 1 < len(ch) else None
            want_prev = ch[idx - 1] if idx > 0 else None
            if c.get_next_sibling() is not want_next:
                return _no('%r.get_next_sibling() = %r, listed next is %r' % (c, c.get_next_sibling(), want_next))
            if c.get_previous_sibling() is not want_prev:
                return _no('%r.get_previous_sibling() = %r, listed previous is %r' % (c, c.get_previous_sibling(), want_prev))
            idx += 1
        sub = leaves(n)
        if n.get_first_leaf() is not sub[0] or n.get_last_leaf() is not sub[-1]:
            return _no('first/last leaf of %r' % n)
    if n.parent is None:
        if n is not TREES[t]:
            return _no('orphan node')
        if n.get_next_sibling() is not None or n.get_previous_sibling() is not None:
            return _no('root has siblings')
    return True


# -------------------------------------------------------------------------------------------------
# synthetic tree with symbolic positions: binary search = linear specification
_W = ('', 'a', 'ab')


def synthetic(l0: int, c0: int, n0: int, g1: int, n1: int, nl2: bool, c2: int, n2: int, g3: int, n3: int,
              nl4: bool, c4: int, n4: int, g5: int, n5: int, line: int, col: int, inc: bool) -> bool:
    """
    require: l0 >= 1 and c0 >= 0 and g1 >= 0 and c2 >= 0 and g3 >= 0 and c4 >= 0 and g5 >= 0
    require: 0 <= n0 <= 2 and 0 <= n1 <= 2 and 0 <= n2 <= 2 and 0 <= n3 <= 2 and 0 <= n4 <= 2 and 0 <= n5 <= 2
    """
    # six leaves with arbitrary (monotone) positions, zero-width leaves and touching leaves included,
    # arranged as  root[ a[L0 L1] L2 b[ c[L3] L4 ] L5 ]
    ls = []
    cur = (l0, c0)
    spec = [(n0, None, 0), (n1, False, g1), (n2, nl2, c2), (n3, False, g3), (n4, nl4, c4), (n5, False, g5)]
    first = True
    for n, newline, gap in spec:
        if first:
            start = cur
            first = False
        elif newline:
            start = (cur[0] + 1, gap)
        else:
            start = (cur[0], cur[1] + gap)
        leaf = Leaf(_W[n], start)
        ls.append(leaf)
        cur = leaf.end_pos
    root = Node('root', [Node('a', [ls[0], ls[1]]), ls[2], Node('b', [Node('c', [ls[3]]), ls[4]]), ls[5]])
    pos = (line, col)
    inside = (1, 0) <= pos <= root.end_pos
    try:
        got = root.get_leaf_for_position(pos, include_prefixes=inc)
    except ValueError:
        return not inside or _no('inside position rejected')
    if not inside:
        return _no('outside position accepted')
    want = None
    for l in ls:
        if pos <= l.end_pos:
            want = None if (not inc and pos < l.start_pos) else l
            break
    if got is not want:
        return _no('synthetic tree: got %r want %r at %r' % (got, want, pos))
    return True
