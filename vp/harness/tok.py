"""X-tok harnesses: the real tokenizer entry point on short fully symbolic texts (G_tok g1-g5)."""
import os

from parso.python.tokenize import tokenize, tokenize_lines
from parso.python.token import PythonTokenTypes as T
from parso.utils import split_lines

from vp.oracle import walk, is_pure_prefix, BOM

WHY = None
VERSIONS = [(3, 6), (3, 7), (3, 8), (3, 9), (3, 10), (3, 11), (3, 12), (3, 13), (3, 14)]
ALPHA = "a1 \n\r\\#'\"(f{}:\f" + BOM + "\xa0"
HOLE_ALPHA = "a1 \n\r\\#'\"(){}:=!.\f\t" + BOM + "\xa0\x1c\x85\u2028\x0b\xe9\xb2"


CLAUSES = set(os.environ.get('VP_CLAUSES', 'g1,g2,g3,g4,g5').split(','))
TWIN = os.environ.get('VP_TWIN')
if TWIN == 'comment-drops-prefix':
    # built-in broken twin: the comment branch forgets the whitespace before the comment
    import parso.python.tokenize as _T
    import re as _re
    _src = __import__('inspect').getsource(_T.tokenize_lines)
    assert 'additional_prefix = prefix + token' in _src
    _src = _src.replace("                    additional_prefix = prefix + token\n            elif token in triple_quoted",
                        "                    additional_prefix = token\n            elif token in triple_quoted")
    exec(compile(_src, 'twin', 'exec'), _T.__dict__)
    tokenize_lines = _T.tokenize_lines


def _no(why):
    global WHY
    WHY = why
    return False


def check_stream(s, toks, start=(1, 0)):
    """G_tok on a finished token list for text s"""
    if not toks or toks[-1].type != T.ENDMARKER:
        return _no('stream does not end with ENDMARKER')
    if sum(1 for t in toks if t.type == T.ENDMARKER) != 1:
        return _no('more than one ENDMARKER')
    # g1 lossless
    if 'g1' in CLAUSES and ''.join(t.prefix + t.string for t in toks) != s:
        return _no('tokens do not tile the text: %r' % ''.join(t.prefix + t.string for t in toks))
    # g2 positions, g4 purity, g3 balance
    pos = start
    first = True
    depth = 0
    pending = []     # zero-width indentation tokens sit at the start of the next real token
    for t in toks:
        if not isinstance(t.string, str) or not isinstance(t.prefix, str):
            return _no('non-str token fields')
        if t.type in (T.INDENT, T.DEDENT, T.ERROR_DEDENT):
            if t.string != '' or t.prefix != '':
                return _no('indentation token carries text')
            pending.append(t)
            if t.type == T.INDENT:
                depth += 1
            elif t.type == T.DEDENT:
                depth -= 1
                if depth < 0 and 'g3' in CLAUSES:
                    return _no('DEDENT before INDENT')
            continue
        if 'g4' in CLAUSES and not is_pure_prefix(t.prefix, first and start == (1, 0)):
            return _no('impure prefix %r before %r' % (t.prefix, t.string))
        pos = walk(pos, t.prefix, bom_allowed=first and start == (1, 0))
        if 'g2' in CLAUSES and t.start_pos != pos:
            return _no('token %r at %r, true position %r' % (t.string, t.start_pos, pos))
        for q in pending:
            if 'g2' in CLAUSES and q.start_pos != pos:
                return _no('%s at %r, next token starts at %r' % (q.type.name, q.start_pos, pos))
        pending = []
        pos = walk(pos, t.string)
        first = False
        # g5 lexical classes
        if 'g5' not in CLAUSES:
            continue
        if t.type == T.NAME and not t.string.isidentifier():
            return _no('NAME %r is not an identifier' % t.string)
        if t.type == T.NEWLINE and t.string not in ('\n', '\r\n', '\r'):
            return _no('NEWLINE %r' % t.string)
        if t.type in (T.NAME, T.NUMBER, T.OP, T.ENDMARKER) and ('\n' in t.string or '\r' in t.string):
            return _no('line break inside %s %r' % (t.type.name, t.string))
        if t.type in (T.NAME, T.NUMBER, T.OP, T.STRING, T.ERRORTOKEN, T.FSTRING_START, T.FSTRING_END,
                      T.NEWLINE, T.FSTRING_STRING) and t.string == '':
            return _no('empty %s token' % t.type.name)
    if 'g3' in CLAUSES and depth != 0:
        return _no('INDENT/DEDENT unbalanced: %d' % depth)
    return True


def tok_g(s: str, vi: int) -> bool:
    """
    require: len(s) <= 2 and 0 <= vi < 9
    """
    toks = list(tokenize(s, version_info=VERSIONS[vi]))
    return check_stream(s, toks)


def tok_g_alpha(s: str, vi: int) -> bool:
    """
    require: len(s) <= 3 and 0 <= vi < 9
    require: all(c in ALPHA for c in s)
    """
    toks = list(tokenize(s, version_info=VERSIONS[vi]))
    return check_stream(s, toks)


def tok_start_pos(s: str, line: int, col: int) -> bool:
    """
    require: len(s) <= 2 and line >= 1 and 0 <= col <= 3
    """
    # tokenize(code, start_pos=(L, C)): positions on the first line shift by C, all lines by L-1
    toks = list(tokenize(s, version_info=(3, 10), start_pos=(line, col)))
    if s.startswith(BOM):
        return True   # a BOM only has zero width at (1, 0)
    return check_stream(s, toks, start=(line, col))


# skeleton + hole: text = pre + h + post, h symbolic (all of Unicode)
HOLES = [
    ('f"{', '"'), ('f"{x', '}"\n'), ('f"{x:', '}"'), ('f"', '"'), ("f'''{", "'''"), ('f"{x!r', '}" '),
    ("rb'", "'"), ("'''", "'''\n"), ('(', ')\n'), ('if x:\n ', 'y\n'), ('x', '= 1\n'), ('#', '\n'),
    ('\\', '\n'), ('x = "a\\', 'b"\n'), ('if x:\n  y\n ', 'z\n'), ('[\n', ']'), ('f"{x}', ''), ('0', 'x'),
    (BOM, 'x'), ('f"{x:{y', '}}"'), ('a ', ' b'), ("b'a", "\n"), ('class', ' A: pass'), ('f"{(', 'def'),
    ('a = 1\n', '\nb = 2\n'), ('x = a', '\n'), ('f"{f\'', ''), ("x = b", "'abc\\\ndef'\n"),
    ("f'''{v:>", "10}'''\n"), ('f"abc\\', 'def"\r'), ('x = f"abc\\', 'def{y}"\n'), ('f"{x ', ' c}"\n'), ('"', "a\\\nb\"\n"),
    ('f"{a:{w}', '}"\n'),
]


def tok_hole(k: int, h: str, vi: int) -> bool:
    """
    require: 0 <= k < len(HOLES) and len(h) <= 2 and 0 <= vi < 9
    """
    pre, post = HOLES[k]
    s = pre + h + post
    toks = list(tokenize(s, version_info=VERSIONS[vi]))
    return check_stream(s, toks)


def tok_hole_known(k, h, vi):
    return None


def tok_hole_c(k: int, c: int, vi: int) -> bool:
    """
    require: 0 <= k < len(HOLES) and 0 <= c < 0x110000 and 0 <= vi < 9
    require: not (0xD800 <= c <= 0xDFFF)
    """
    pre, post = HOLES[k]
    s = pre + chr(c) + post
    toks = list(tokenize(s, version_info=VERSIONS[vi]))
    return check_stream(s, toks)


def tok_chars2(c1: int, c2: int, vi: int) -> bool:
    """
    require: 0 <= c1 < 0x110000 and 0 <= c2 < 0x110000 and 0 <= vi < 9
    require: not (0xD800 <= c1 <= 0xDFFF) and not (0xD800 <= c2 <= 0xDFFF)
    """
    s = chr(c1) + chr(c2)
    toks = list(tokenize(s, version_info=VERSIONS[vi]))
    return check_stream(s, toks)


def tok_chars1(c1: int, vi: int) -> bool:
    """
    require: 0 <= c1 < 0x110000 and 0 <= vi < 9 and not (0xD800 <= c1 <= 0xDFFF)
    """
    s = chr(c1)
    toks = list(tokenize(s, version_info=VERSIONS[vi]))
    return check_stream(s, toks)


def tok_chars3(c1: int, c2: int, c3: int, vi: int) -> bool:
    """
    require: 0 <= vi < 9
    require: chr(c1) in ALPHA and chr(c2) in ALPHA and chr(c3) in ALPHA
    """
    s = chr(c1) + chr(c2) + chr(c3)
    toks = list(tokenize(s, version_info=VERSIONS[vi]))
    return check_stream(s, toks)


def tok_start_c(c1: int, line: int, col: int) -> bool:
    """
    require: 0 <= c1 < 0x110000 and not (0xD800 <= c1 <= 0xDFFF) and line >= 1 and 0 <= col <= 3
    """
    s = chr(c1) + 'x\n'
    if s.startswith(BOM):
        return True
    toks = list(tokenize(s, version_info=(3, 10), start_pos=(line, col)))
    return check_stream(s, toks, start=(line, col))
