"""C06 engine level: derivations over the real tables, rendered as text, parsed strictly and with recovery."""
import os

import parso
from parso.parser import ParserSyntaxError

from vp import derive as D
from vp import treeoracle as TO

WHY = None
VERSIONS = ['3.6', '3.7', '3.8', '3.9', '3.10', '3.11', '3.12', '3.13', '3.14']
_USE = [int(x) for x in os.environ.get('VP_VERSIONS', '0,4,8').split(',')]
G = {vi: parso.load_grammar(version=VERSIONS[vi]) for vi in _USE}
DV = {vi: D.Deriver(G[vi]._pgen_grammar) for vi in _USE}
RULES = {vi: sorted(r for r in DV[vi].nts if DV[vi].path_to('file_input', r) is not None) for vi in _USE}
USED = set()


def _no(why):
    global WHY
    WHY = why
    return False


def check_derivation(vi, start, target, choices):
    dv = DV[vi]
    it = iter(choices)

    def chooser(rule, opts):
        try:
            return next(it)
        except StopIteration:
            return None
    used = set()
    d = dv.derive_with_focus(start, target, chooser, used, [len(choices)])
    if d is None:
        return True
    if D.unproducible(d):
        return True
    text = D.render(d)
    want = D.sig_derivation(d)
    g = G[vi]
    try:
        if start == 'file_input':
            m = g.parse(text, error_recovery=False)
        else:
            m = g.parse(text, error_recovery=False, start_symbol=start)
    except ParserSyntaxError as e:
        return _no('sentence of the grammar rejected: %r (at %r %r); derivation through %s' % (text, e.error_leaf.value, e.error_leaf.start_pos, target))
    got = D.sig_tree(m)
    if got != want:
        return _no('tree of %r is not its derivation: got %r, derivation %r' % (text, got, want))
    if start == 'file_input':
        m2 = g.parse(text)
        if any(n.type in ('error_node', 'error_leaf') for n in TO.nodes(m2)):
            return _no('recovering parser marks an error in the sentence %r' % text)
        if D.sig_tree(m2) != want:
            return _no('recovering parser returns a different tree for %r' % text)
    USED.update((vi,) + u for u in used)
    return True


def deriv(vi: int, r: int, c1: int, c2: int, c3: int, c4: int, ev: bool) -> bool:
    """
    require: 0 <= vi < 9 and 0 <= r < 120 and 0 <= c1 < 6 and 0 <= c2 < 6 and 0 <= c3 < 6 and 0 <= c4 < 6
    """
    try:
        from crosshair.tracers import NoTracing
        from crosshair.core import realize
    except ImportError:
        return _native(vi, r, c1, c2, c3, c4, ev)
    vi, r, c1, c2, c3, c4, ev = [realize(x) for x in (vi, r, c1, c2, c3, c4, ev)]
    with NoTracing():
        return _native(vi, r, c1, c2, c3, c4, ev)


def _native(vi, r, c1, c2, c3, c4, ev):
    rules = RULES[vi]
    if r >= len(rules):
        return True
    target = rules[r]
    start = 'file_input'
    if ev:
        if DV[vi].path_to('eval_input', target) is None:
            return True
        start = 'eval_input'
    return check_derivation(vi, start, target, [c1, c2, c3, c4])
