"""C04 harnesses: incremental re-parse (diff_cache) against a fresh parse, on edit histories.

Histories: a base text, then edits (insert / delete / replace one line, lines from a pool chosen to hit the
situations the property names).  The edit selectors are realised by the solver (complete per condition); after
that parso runs natively.  Unit lemmas with genuinely symbolic integers for the position arithmetic are below."""
import os

import parso
from parso.python import diff as D
from parso.cache import parser_cache
from parso.utils import split_lines

from vp import treeoracle as TO

WHY = None
G = parso.load_grammar(version='3.10')
EXISTING = os.path.join(os.path.dirname(parso.__file__), '__init__.py')

BASES = [
    "class C:\n    def f(self):\n        return 1\n\n    def g(self):\n        x = (1,\n             2)\n        return x\n\ny = C()\n",
    "import os\n\n\ndef f(a, b=1):\n    if a:\n        return b\n    else:\n        for i in a:\n            print(i)\n    return None\n\n\nx = f(1)\nz = f(2)\n",
    "@dec\nasync def h():\n    await x\n\n\nasync def f(): bar.-\nx = 1\ny = 2\ntry:\n    pass\nexcept E as e:\n    raise\nfinally:\n    pass\nw = '''a\nb'''\n",
    "\ufeffx = 1\nif x:\n    y = \"s\"\n    z = f'{y!r:>{x}}'\n\f\nelif z:\n    pass\nlast = x",
    "def a():\n    pass\n\n# comment\ndef b():\n    l = [\n        1,\n    ]\n    return l  # c\n\n\nclass D: pass\nD = 3 \\\n  + 4\n",
    "x = f(1)\ny = x\nx = f(2)\nf = 3\ndef q():\n  return x + f\nx = f(1)\n",
    "x = 1\ndef f():\n    a\n    b  # end",
]
POOL = [
    "    pass\n", "   u\n", "def n():\n", "        return (\n", ")\n", "x = '''\n", "'''\n", "@d\n", "\n", "  # c\n",
    "class K:\n", "    else:\n", "if a:\n", "\tq = 1\n", "q = [\n", "\\\n", "$ ?\n", "async def r(): await s.-\n", "x = f(1)\n", "zz = f\n",
    "    A\n", "    return t'{x}'\n",
]


def _no(why):
    global WHY
    WHY = why
    return False


def apply_edit(lines, op, i, p):
    """op 0 insert POOL[p] before line i; 1 delete line i; 2 replace line i by POOL[p]; 3 duplicate line i"""
    lines = list(lines)
    n = len(lines)
    i = i % (n + 1)
    if op == 0:
        lines.insert(i, POOL[p % len(POOL)])
    elif n == 0:
        return lines
    elif op == 1:
        del lines[i % n]
    elif op == 2:
        lines[i % n] = POOL[p % len(POOL)]
    else:
        lines.insert(i % n, lines[i % n])
    return lines


def compare(label, text, m):
    fresh = G.parse(text)
    if m.get_code() != text:
        return _no('%s: incremental tree reproduces %r, new text is %r' % (label, m.get_code()[-60:], text[-60:]))
    r = TO._same_tree(fresh, m)
    if r:
        return _no('%s: incremental tree differs from a fresh parse of %r: %s' % (label, text[:60], r))
    r = TO.check_wellformed(m) or TO.check_positions(m, text)
    if r:
        return _no('%s: %s' % (label, r))
    un_f = {k: [(n.value, n.start_pos) for n in v] for k, v in fresh.get_used_names().items()}
    un_m = {k: [(n.value, n.start_pos) for n in v] for k, v in m.get_used_names().items()}
    if un_f != un_m:
        return _no('%s: used-names index is stale: %r vs fresh %r' % (label, sorted(un_m)[:8], sorted(un_f)[:8]))
    sig = lambda l: [(i.code, i.message, i.start_pos, i.end_pos) for i in l]
    try:
        if sig(G.iter_errors(m)) != sig(G.iter_errors(fresh)):
            return _no('%s: iter_errors differs between incremental and fresh tree' % label)
    except AttributeError as e:
        if 'group' not in str(e):       # (known finding prefix-comment-formfeed is C13's business)
            raise
    try:
        a = sorted((i.code, i.start_pos, i.end_pos) for i in G._get_normalizer_issues(m))
        b = sorted((i.code, i.start_pos, i.end_pos) for i in G._get_normalizer_issues(fresh))
    except (AttributeError, AssertionError):
        a = b = None                    # (known finding pep8-indentation-stack-underflow is C20's business)
    if a != b:
        return _no('%s: PEP 8 issues differ between incremental and fresh tree: %r vs %r' % (label, a[:4], b[:4]))
    return True


def run_history(b, edits):
    # odd bases: a path that exists on disk and is not modified there (an unsaved editor buffer); even: no such file
    path = EXISTING if b % 2 else '/virtual/h%d.py' % b
    parser_cache.pop(G._hashed, None)
    lines = split_lines(BASES[b], keepends=True)
    if lines and lines[-1] == '':
        lines = lines[:-1]
    text = ''.join(lines)
    try:
        m = G.parse(text, diff_cache=True, path=path)
        if not compare('step 0', text, m):
            return False
        k = 0
        for op, i, p in edits:
            k += 1
            lines = apply_edit(lines, op, i, p)
            text = ''.join(lines)
            try:
                m = G.parse(text, diff_cache=True, path=path)
            except Exception as e:
                return _no('step %d: incremental parse of %r raised %r' % (k, text[:80], e))
            if not compare('step %d (%r)' % (k, (op, i, p)), text, m):
                return False
    finally:
        parser_cache.pop(G._hashed, None)
    return True


def _realised(*xs):
    try:
        from crosshair.core import realize
    except ImportError:
        return None, xs
    return True, [realize(x) for x in xs]


def history1(b: int, op: int, i: int, p: int) -> bool:
    """
    require: 0 <= b < len(BASES) and 0 <= op <= 3 and 0 <= i < 18 and 0 <= p < len(POOL)
    """
    tr, (b, op, i, p) = _realised(b, op, i, p)
    if tr is None:
        return run_history(b, [(op, i, p)])
    from crosshair.tracers import NoTracing
    with NoTracing():
        return run_history(b, [(op, i, p)])


def history2(b: int, op1: int, i1: int, p1: int, op2: int, d2: int, p2: int) -> bool:
    """
    require: 0 <= b < len(BASES) and 0 <= op1 <= 3 and 0 <= i1 < 18 and 0 <= p1 < len(POOL)
    require: 0 <= op2 <= 3 and 0 <= d2 <= 4 and 0 <= p2 < len(POOL)
    """
    # second edit within two lines of the first (d2 - 2), or at the end of the file (d2 == 4 -> last line)
    tr, (b, op1, i1, p1, op2, d2, p2) = _realised(b, op1, i1, p1, op2, d2, p2)
    i2 = 10 ** 6 if d2 == 4 else max(0, i1 + d2 - 2)
    if d2 == 4:
        i2 = -1
    edits = [(op1, i1, p1), (op2, i2, p2)]
    if tr is None:
        return run_history(b, edits)
    from crosshair.tracers import NoTracing
    with NoTracing():
        return run_history(b, edits)


def history3_undo(b: int, op: int, i: int, p: int) -> bool:
    """
    require: 0 <= b < len(BASES) and 0 <= op <= 2 and 0 <= i < 18 and 0 <= p < len(POOL)
    """
    # edit, then undo it (back to the base text), then the same edit again
    tr, (b, op, i, p) = _realised(b, op, i, p)

    def go():
        path = EXISTING if b % 2 else '/virtual/u%d.py' % b
        parser_cache.pop(G._hashed, None)
        lines = split_lines(BASES[b], keepends=True)
        if lines and lines[-1] == '':
            lines = lines[:-1]
        edited = apply_edit(lines, op, i, p)
        try:
            for k, ls in enumerate((lines, edited, lines, edited, lines[:-1], lines)):
                text = ''.join(ls)
                try:
                    m = G.parse(text, diff_cache=True, path=path)
                except Exception as e:
                    return _no('undo history step %d raised %r' % (k, e))
                if not compare('undo history step %d' % k, text, m):
                    return False
        finally:
            parser_cache.pop(G._hashed, None)
        return True
    if tr is None:
        return go()
    from crosshair.tracers import NoTracing
    with NoTracing():
        return go()


# -------------------------------------------------------------------------------------------------
# unit lemmas of the position arithmetic (symbolic ints / strings)
from parso.python import tree as pt
from vp.oracle import walk


def update_positions(off: int, l1: int, l2: int, l3: int, last: int) -> bool:
    """
    require: 1 <= l1 <= l2 <= l3 and 0 <= last <= 2
    """
    # _update_positions(nodes, offset, last_leaf) shifts exactly the leaves up to (and including) last_leaf
    a, b, c = pt.Name('a', (l1, 0)), pt.Name('b', (l2, 2)), pt.Name('c', (l3, 4))
    n = pt.PythonNode('x', [pt.PythonNode('y', [a, b]), c])
    leaves = [a, b, c]
    try:
        D._update_positions([n], off, leaves[last])
    except D._PositionUpdatingFinished:
        pass
    want = [(l1, l2, l3)[k] + (off if k <= last else 0) for k in range(3)]
    got = [x.line for x in leaves]
    if got != want:
        return _no('_update_positions: lines %r, expected %r' % (got, want))
    return a.column == 0 and b.column == 2 and c.column == 4


def ends_with_newline(c1: int, kind: int, s1: int, has_suffix: bool) -> bool:
    """
    require: 0 <= c1 < 0x110000 and not (0xD800 <= c1 <= 0xDFFF) and 0 <= kind <= 3
    require: 0 <= s1 <= 0x10FFFF and not (0xD800 <= s1 <= 0xDFFF)
    """
    # _ends_with_newline(leaf, suffix): a newline leaf (also as error leaf, also behind zero-width DEDENT error
    # leaves) or a suffix ending in a Python line break (\n or \r, nothing else)
    value = chr(c1)
    suffix = chr(s1) if has_suffix else ''
    prev = pt.Newline(value, (1, 0)) if kind in (0, 3) else (
        pt.PythonErrorLeaf('NEWLINE', value, (1, 0)) if kind == 1 else pt.Name('n', (1, 0)))
    leaf = prev
    if kind == 3:
        ded = pt.PythonErrorLeaf('DEDENT', '', (2, 0))
        pt.PythonNode('file_input', [prev, ded])
        leaf = ded
    got = D._ends_with_newline(leaf, suffix)
    want = kind != 2 or suffix == chr(10) or suffix == chr(13)
    if bool(got) != want:
        return _no('_ends_with_newline(kind %d value %r, suffix %r) = %r' % (kind, value, suffix, got))
    return True
