"""X-pipe harnesses: text -> real tokenizer -> real parser -> consumers, with symbolic characters in a
hole of a skeleton (text level), and label holes over the grammar's complete label alphabet (realised).
The post-conditions are selected with VP_CLAUSES (one property = its own clauses)."""
import os
import traceback

import parso
from parso.python.pep8 import PEP8NormalizerConfig

from vp import treeoracle as TO
from vp.oracle import BOM

WHY = None
INLINE_KNOWN = True        # known findings are skipped inline when VP_EXCLUDE_KNOWN=1 (see vp/xh.py)
CLAUSES = [c for c in os.environ.get('VP_CLAUSES', 'c01,c02,c03,c05,c07,c13,c19,c20').split(',') if c]
EXCLUDE = os.environ.get('VP_EXCLUDE_KNOWN') == '1'
TWIN = os.environ.get('VP_TWIN')
VERSIONS = ['3.6', '3.7', '3.8', '3.9', '3.10', '3.11', '3.12', '3.13', '3.14']
VINFO = [(3, 6), (3, 7), (3, 8), (3, 9), (3, 10), (3, 11), (3, 12), (3, 13), (3, 14)]
# everything expensive is built at import time, i.e. before CrossHair starts tracing
_USE = [int(x) for x in os.environ.get('VP_VERSIONS', '0,4,8').split(',')]
_G = {vi: parso.load_grammar(version=VERSIONS[vi]) for vi in _USE}
for _vi in _USE:
    TO.GrammarSpec.get(VINFO[_vi])
LAST_KNOWN = None


def grammar(vi):
    if vi not in _G:
        _G[vi] = parso.load_grammar(version=VERSIONS[vi])
    return _G[vi]


def _no(why):
    global WHY
    WHY = why
    return False


def classify(exc):
    """call site of an exception inside parso: file:function:ExceptionType"""
    tb = traceback.extract_tb(exc.__traceback__)
    site = None
    for fr in tb:
        if '/parso/' in fr.filename:
            site = '%s:%s' % (os.path.basename(fr.filename), fr.name)
    return '%s:%s' % (site, type(exc).__name__)


# known findings identified by call site (see known_findings.json)
KNOWN_SITES = {
    'pep8.py:_visit_part:AttributeError': 'pep8-indentation-stack-underflow',
    'pep8.py:_get_wanted_blank_lines_count:AttributeError': 'pep8-indentation-stack-underflow',
    'pep8.py:_visit_node:AssertionError': 'pep8-indentation-stack-underflow',
    'prefix.py:split_prefix:AttributeError': 'prefix-comment-formfeed',
    'pep8.py:_visit_part:TypeError': 'pep8-tab-config-vertical-bracket',
    'pep8.py:__init__:TypeError': 'pep8-tab-config-vertical-bracket',
}


def _guard(fn, *a):
    """runs a consumer; an exception is a violation (totality) unless it is a recorded known finding"""
    global LAST_KNOWN
    try:
        return fn(*a)
    except Exception as e:
        site = classify(e)
        key = KNOWN_SITES.get(site)
        if key == 'prefix-comment-formfeed':
            from vp.oracle import comment_formfeed_crash
            if not any(comment_formfeed_crash(l.prefix) for l in TO.leaves(a[1] if len(a) > 1 else a[0])):
                key = None
        if key is not None:
            LAST_KNOWN = key
            if EXCLUDE:
                return None
        return 'raised %s at %s' % (type(e).__name__ + ': ' + str(e)[:80], site)


def run_checks(text, vi, index=0, repl=''):
    global LAST_KNOWN
    LAST_KNOWN = None
    g = grammar(vi)
    m = g.parse(text)
    for c in CLAUSES:
        if c == 'c01':
            r = TO.check_roundtrip(m, text)
        elif c == 'c02':
            r = TO.check_wellformed(m)
        elif c == 'c03':
            r = TO.check_positions(m, text)
        elif c == 'c05':
            r = TO.check_conformance(m, VINFO[vi])
        elif c == 'c07':
            r = TO.check_strict_agrees(g, m, text)
        elif c == 'c13':
            r = _guard(TO.check_error_listing, g, m)
        elif c == 'c19':
            r = _guard(TO.check_serialisation, m) or _guard(TO.check_refactor, g, m, text, index, repl)
        elif c == 'c20':
            r = _guard(TO.check_pep8, g, m, text)
        elif c == 'c20t':
            r = _guard(TO.check_pep8, g, m, text, PEP8NormalizerConfig(indentation='\t', max_characters=10))
        else:
            raise ValueError(c)
        if r is not None:
            return _no('%s: %s | text %r (version %s)' % (c, r, text[:80], VERSIONS[vi]))
    return True


# -------------------------------------------------------------------------------------------------
HOLES = [
    ('x = ', '\n'), ('def f(', '): pass\n'), ('l', ' = 1\n'), ('if x:\n    ', 'y\n'),
    ('class C:\n  def f(self):\n    return ', '\n'), ('f"{x', '}"\n'), ('x = [1,', ' 2]\n'), ('import ', 'os\n'),
    ('x = 1', ''), ('', 'x\n'), ('print(', ')'), ('a ', ' b\n'), ('x = "', '"\n'), ('"""', '"""\n'),
    ('x = 1 #', '\n'), ('try:\n  x\nexcept', ':\n  y\n'), ('@', '\ndef f(): pass\n'), ('x = (1,\n', '2)\n'),
    ('\\\n', 'x\n'), ('for x in y:', ' pass\n'), ('lambda ', ': 0\n'), ('x = {', ': 1}\n'),
    ('def f(a, ', '/, b): pass\n'), ('async ', 'def f(): await x\n'), (BOM, 'x = 1\n'), ('if x:\n  y\n ', 'z\n'),
    ('x = f(a', 'b)\n'), ('x = 0', '1\n'), ('f"{x:', '}" \n'), ('x\n', ''),
    ('x = a', '\n'), ('f"{f\'', ''), ("x = b", "'abc\\\ndef'\n"), ('foo bar\nx = ', '\n'), ('if x:\r\\', 'y\r'),
    ('x = 1\n\\', ''), ('a = 1\n', '\nb = 2\n'), ('if x:\n', ' c\ny\n'), ('def f():', ''), ('x = (', '\ndef g(): pass\n'),
]


def pipe_hole(k: int, c: int, vi: int) -> bool:
    """
    require: 0 <= k < len(HOLES) and 0 <= c < 0x110000 and not (0xD800 <= c <= 0xDFFF) and 0 <= vi < 9
    """
    pre, post = HOLES[k]
    return run_checks(pre + chr(c) + post, vi, index=c, repl=chr(c))


def pipe_hole_known(k, c, vi):
    pipe_hole(k, c, vi)
    return LAST_KNOWN


def pipe_hole2(k: int, c1: int, c2: int, vi: int) -> bool:
    """
    require: 0 <= k < len(HOLES) and 0 <= c1 < 0x110000 and 0 <= c2 < 0x110000 and 0 <= vi < 9
    require: not (0xD800 <= c1 <= 0xDFFF) and not (0xD800 <= c2 <= 0xDFFF)
    """
    pre, post = HOLES[k]
    return run_checks(pre + chr(c1) + chr(c2) + post, vi, index=c1, repl=chr(c2))


def pipe_hole2_known(k, c1, c2, vi):
    pipe_hole2(k, c1, c2, vi)
    return LAST_KNOWN


def pipe_chars2(c1: int, c2: int, vi: int) -> bool:
    """
    require: 0 <= c1 < 0x110000 and 0 <= c2 < 0x110000 and 0 <= vi < 9
    require: not (0xD800 <= c1 <= 0xDFFF) and not (0xD800 <= c2 <= 0xDFFF)
    """
    return run_checks(chr(c1) + chr(c2), vi, index=c1, repl=chr(c2))


def pipe_chars2_known(c1, c2, vi):
    pipe_chars2(c1, c2, vi)
    return LAST_KNOWN


# -------------------------------------------------------------------------------------------------
# label holes: one token out of the grammar's complete label alphabet inserted at / replacing a position of a
# short token skeleton.  The two selectors are realised by CrossHair (finite, complete dimension); after that
# parso runs natively (DESIGN 3.3 `realised-native`).
SKELS = [
    ['if', ' a', ':', '\n', '    ', 'b', ' =', ' 1', '\n', 'c', '\n'],
    ['def', ' f', '(', 'a', ',', ' b', '=', '1', ')', ':', ' return', ' a', '\n'],
    ['x', ' =', ' [', 'a', ' for', ' a', ' in', ' b', ' if', ' c', ']', '\n'],
    ['class', ' C', '(', 'B', ')', ':', '\n', '  ', 'x', ' =', ' 1', '\n', '  ', 'def', ' f', '(', ')', ':', ' pass', '\n'],
    ['try', ':', '\n', ' ', 'x', '\n', 'except', ' E', ' as', ' e', ':', '\n', ' ', 'y', '\n', 'finally', ':', '\n', ' ', 'z', '\n'],
    ['x', ' =', ' f', '(', 'a', ',', ' *', 'b', ',', ' **', 'c', ')', '\n'],
    ['from', ' a', '.', 'b', ' import', ' (', 'c', ' as', ' d', ',', ' e', ')', '\n'],
    ['with', ' a', ' as', ' b', ',', ' c', ':', '\n', '  ', 'pass', '\n'],
    ['x', ' =', ' {', 'a', ':', ' b', ',', ' **', 'c', '}', '\n'],
    ['f"', 'a', '{', 'x', '!r', ':', '>', '{', 'w', '}', '}', '"', '\n'],
    ['while', ' a', ':', '\n', ' ', 'if', ' b', ':', ' break', '\n', 'else', ':', ' pass', '\n'],
    ['@', 'd', '\n', 'async', ' def', ' f', '(', ')', ':', '\n', '  ', 'await', ' x', '\n'],
    ['x', ' =', ' a', ' if', ' b', ' else', ' lambda', ' c', ':', ' d', '\n'],
    ['a', ',', ' *', 'b', ' =', ' c', '\n', 'del', ' a', '[', '0', ']', '\n'],
    ['def', ' f', '[', 'T', ',', ' U', ']', '(', 'a', ',', ' b', '=', '1', ',', ' *', 'c', ')', ':', ' pass', '\n'],
    ['def', ' f', '(', 'a', ',', ' /', ',', ' b', ',', ' *', ',', ' c', ')', ':', ' pass', '\n', 'lambda', ' *', ',', ' a', ':', ' a', '\n'],
    ['def', ' f', '(', ')', ':'],
    ['if', ' a', ':', '\n', '  ', 'b', '\n', 'else', ':'],
    ['if', ' x', ':', '\n', '# c\n', 'y', '\n'],
    ['def', ' a', '(', ')', ':', ' pass', '\n', '\n', '# c\n', 'def', ' b', '(', ')', ':', ' pass', '\n'],
    ['x', ' =', ' 1', '  ', '# done'],
    ['foo', ' bar', '\n', 'x', ' =', ' 1', '\n', 'y', '\n'],
    ['if', ' x', ':', '\r', '\\\r', 'y', '\r', 'z', ' =', ' (', '1', ',', '\r', ' 2', ')', '\r'],
    ["f'''", '{', 'v', ':', '>', '\n', '10', '}', "'''", '\n', 'f"', 'abc', '\\\n', 'def', '{', 'y', ':', '{', 'w', '}', 'd', '}', '"', '\n'],
    ['(' * 95, 'a', ')' * 95, '\n'],
    ['# h\n', '\n', '    ', 'import', ' os', '\n', 'x', '\n'],
    ['def', ' f', '(', ')', ':', '\n', '    ', 'x', ' =', ' 1', ';', ' global', ' x', ';', ' break', '\n', '    ', 'continue', '\n'],
    ['f', '(', 'a', ',', ' k', '=', '1', ',', ' *', 'x', ')', '\n', 'class', ' C', '(', 'B', ',', ' m', '=', '1', ')', ':', ' pass', '\n'],
    ['a', ' =', ' 1', '\n', 'x', ' =', ' [', '\n', '    1', ',', '\n', ']', '          #comment', '\n', 'y', ' =', ' 2', '\n'],
    ['x', ' =', ' 12345', '\n', 'yy', ' =', ' 123', '\n', 'z', '=', '1234567', '\n'],
    ['\ufeff', 'x', ' =', ' (', '1', ',', '\n', ' 2', ')', '\n', '\n', '\n', '\n', 'y', '=', '1'],
]
_EXTRA = ['', 'a', '1', "'s'", '$', '\n', '\n    ', '\n  ', 'f"', "f'", '"', "'", '"""', '\\\n', '#c\n', '?', '1.', '0x', 'é', '²',
          'a²', "br'a\\\nb'", '\n\xa0\n', 'l', '\x0c', '\r', '"\'a\\\nb"', '#\n', '00', '0_0', '1_000j', 'async']


def labels(vi):
    g = grammar(vi)
    return sorted(g._pgen_grammar.reserved_syntax_strings) + _EXTRA


def pipe_label(k: int, pos: int, j: int, replace: bool, vi: int) -> bool:
    """
    require: 0 <= k < len(SKELS) and 0 <= vi < 9 and 0 <= pos <= len(SKELS[k]) and 0 <= j < 140
    """
    try:
        from crosshair.tracers import NoTracing
        from crosshair.core import realize
    except ImportError:          # plain replay
        return _label_native(k, pos, j, replace, vi)
    k, pos, j, replace, vi = realize(k), realize(pos), realize(j), realize(replace), realize(vi)
    with NoTracing():
        return _label_native(k, pos, j, replace, vi)


def _label_native(k, pos, j, replace, vi):
    L = labels(vi)
    if j >= len(L):
        return True
    parts = list(SKELS[k])
    lab = L[j]
    tok = (' ' + lab) if lab.strip() and not lab.startswith('\n') else lab
    if lab == '' and replace:
        return True
    if replace and pos < len(parts):
        parts[pos] = tok
    else:
        parts.insert(pos, tok)
    return run_checks(''.join(parts), vi, index=pos + j, repl=lab)


def pipe_label_known(k, pos, j, replace, vi):
    _label_native(k, pos, j, replace, vi)
    return LAST_KNOWN


def pipe_label2(k: int, pos: int, j1: int, j2: int, vi: int) -> bool:
    """
    require: 0 <= k < len(SKELS) and 0 <= vi < 9 and 0 <= pos <= len(SKELS[k]) and 0 <= j1 < 140 and 0 <= j2 < 140
    """
    try:
        from crosshair.tracers import NoTracing
        from crosshair.core import realize
    except ImportError:
        return _label2_native(k, pos, j1, j2, vi)
    k, pos, j1, j2, vi = realize(k), realize(pos), realize(j1), realize(j2), realize(vi)
    with NoTracing():
        return _label2_native(k, pos, j1, j2, vi)


def _label2_native(k, pos, j1, j2, vi):
    L = labels(vi)
    if j1 >= len(L) or j2 >= len(L):
        return True
    parts = list(SKELS[k])
    for lab in (L[j2], L[j1]):
        parts.insert(pos, (' ' + lab) if lab.strip() and not lab.startswith('\n') else lab)
    return run_checks(''.join(parts), vi, index=pos + j1, repl=L[j2])


def pipe_label2_known(k, pos, j1, j2, vi):
    _label2_native(k, pos, j1, j2, vi)
    return LAST_KNOWN


# -------------------------------------------------------------------------------------------------
# token-level spelling holes: the skeleton is tokenised concretely (G_tok is C09's obligation), the text of one
# NAME token is symbolic (1 or 2 characters, constrained to be an identifier - G_tok g5), later columns on its
# line shift; then the REAL parser and consumers run on the token stream.
from parso.python.tokenize import tokenize, PythonToken
from parso.python.parser import Parser
from parso.python.token import PythonTokenTypes as PT

SPELL = [
    ('x = 1\nprint(x)\n', 0), ('def f(a): return a\n', 1), ('class C:\n  def f(self): pass\n', 1),
    ('x = y\n', 2), ('import a\n', 1), ('a.b = 1\n', 2), ('f(a=1)\n', 2), ('for a in b: pass\n', 1),
    ('x = a if b else c\n', 4), ('del a\n', 1), ('global a\n', 1), ('a: int = 1\n', 2), ('with a as b: pass\n', 3),
    ('lambda a: a\n', 1), ('x = f"{a!r}"\n', 4), ('try: pass\nexcept E as e: pass\n', 6), ('async def f(): await a\n', 2),
    ('a = b = c\n', 0), ('from a import b as c\n', 3), ('x = [a for a in b]\n', 3),
]
_TOKS = {}
for _vi in _USE:
    for _k in range(len(SPELL)):
        _TOKS[(_k, _vi)] = list(tokenize(SPELL[_k][0], version_info=VINFO[_vi]))


def _tokens(k, vi):
    if (k, vi) not in _TOKS:
        _TOKS[(k, vi)] = list(tokenize(SPELL[k][0], version_info=VINFO[vi]))
    return _TOKS[(k, vi)]


def spelled_tokens(k, vi, name):
    toks = _tokens(k, vi)
    idx = SPELL[k][1]
    t0 = toks[idx]
    assert t0.type == PT.NAME, (k, t0)
    delta = len(name) - len(t0.string)
    out = []
    i = 0
    for t in toks:
        if i == idx:
            out.append(PythonToken(t.type, name, t.start_pos, t.prefix))
        elif i > idx and t.start_pos[0] == t0.start_pos[0]:
            out.append(PythonToken(t.type, t.string, (t.start_pos[0], t.start_pos[1] + delta), t.prefix))
        else:
            out.append(t)
        i += 1
    return out


def run_token_checks(toks, vi, index=0, repl=''):
    global LAST_KNOWN
    LAST_KNOWN = None
    g = grammar(vi)
    text = ''.join(t.prefix + t.string for t in toks)
    m = Parser(g._pgen_grammar, error_recovery=True).parse(iter(toks))
    for c in CLAUSES:
        if c == 'c01':
            r = TO.check_roundtrip(m, text)
        elif c == 'c02':
            r = TO.check_wellformed(m)
        elif c == 'c03':
            r = TO.check_positions(m, text)
        elif c == 'c05':
            r = TO.check_conformance(m, VINFO[vi])
        elif c == 'c07':
            r = TO.check_strict_agrees(_TokGrammar(g, toks), m, text)
        elif c == 'c13':
            r = _guard(TO.check_error_listing, g, m)
        elif c == 'c19':
            r = _guard(TO.check_serialisation, m) or _guard(TO.check_refactor, g, m, text, index, repl)
        elif c == 'c20':
            r = _guard(TO.check_pep8, g, m, text)
        else:
            raise ValueError(c)
        if r is not None:
            return _no('%s: %s | text %r (version %s)' % (c, r, text[:80], VERSIONS[vi]))
    return True


class _TokGrammar:
    """strict parse of the same token stream (token level: the tokenizer is not under test here)"""
    def __init__(self, g, toks):
        self.g, self.toks = g, toks

    def parse(self, text, error_recovery=False):
        return Parser(self.g._pgen_grammar, error_recovery=False).parse(iter(self.toks))


def pipe_spell1(k: int, c: int, vi: int) -> bool:
    """
    require: 0 <= k < len(SPELL) and 0 <= vi < 9 and 0 <= c < 0x110000 and not (0xD800 <= c <= 0xDFFF)
    require: chr(c).isidentifier()
    """
    return run_token_checks(spelled_tokens(k, vi, chr(c)), vi, index=c, repl=chr(c))


def pipe_spell1_known(k, c, vi):
    pipe_spell1(k, c, vi)
    return LAST_KNOWN


def pipe_spell2(k: int, c1: int, c2: int, vi: int) -> bool:
    """
    require: 0 <= k < len(SPELL) and 0 <= vi < 9 and 0 <= c1 < 128 and 0 <= c2 < 128
    require: (chr(c1) + chr(c2)).isidentifier()
    """
    return run_token_checks(spelled_tokens(k, vi, chr(c1) + chr(c2)), vi, index=c1, repl=chr(c2))


def pipe_spell2_known(k, c1, c2, vi):
    pipe_spell2(k, c1, c2, vi)
    return LAST_KNOWN


# -------------------------------------------------------------------------------------------------
# bytes input (C01): parse(bytes) returns exactly the decoded text (a UTF-8 BOM is kept as U+FEFF)
BYTES = [b'x = 1\n', b'# c\nx = "\xc3\xa9"\n', b'def f():\n  pass\n', b'',
         b'# coding: latin-1\nx = "\xc3\xa9"\n', b'#!/bin/sh\n# -*- coding: cp1252 -*-\nx = "\xc3\xa9\x80"\n']


def pipe_bytes(k: int, bom: bool, b1: int, at: int) -> bool:
    """
    require: 0 <= k < len(BYTES) and 0 <= b1 < 128 and 0 <= at <= 30
    """
    body = BYTES[k]
    at = min(at, len(body))
    data = (b'\xef\xbb\xbf' if bom else b'') + body[:at] + bytes([b1]) + body[at:]
    # oracle: CPython's rule (tokenize.detect_encoding + decode; the BOM is kept as U+FEFF); files CPython cannot
    # decode are outside the claim; so is a lone CR in the first two lines (Lib/tokenize.py splits lines at \\n only,
    # the C tokenizer and parso also at \\r - see DESIGN 4/C15)
    from vp.concrete import _ref_decode
    head = data.split(b'\n', 2)[:2]
    if any(b'\r' in l.rstrip(b'\r') for l in head) or (b1 == 13 and at <= len(b'\n'.join(head))):
        return True
    want = _ref_decode(data)
    if want is None:
        return True
    g = grammar(4)
    m = g.parse(data)
    if m.get_code() != want:
        return _no('parse(%r).get_code() = %r, decoded text is %r' % (data, m.get_code(), want))
    r = TO.check_roundtrip(m, want) or TO.check_positions(m, want)
    if r:
        return _no('bytes input: ' + r)
    return True


# -------------------------------------------------------------------------------------------------
# refactoring is an exact text splice (C19): concrete trees, symbolic replacement strings
RTEXTS = ['def f(a, b=1):\n    return a + b  # c\n', 'x = [1,\n 2]\nclass C: pass\n', 'if x:\n  y = f"{a!r}"\nelse: $\n']
RTREES = [grammar(4).parse(t) for t in RTEXTS]
RNODES = [TO.nodes(m) for m in RTREES]


def pipe_refactor(t: int, i: int, j: int, c1: int, c2: int, n2: int) -> bool:
    """
    require: 0 <= t < len(RTEXTS) and 0 <= i < 64 and 0 <= j < 64 and 0 <= n2 <= 1
    require: 0 <= c1 < 0x110000 and 0 <= c2 < 0x110000 and not (0xD800 <= c1 <= 0xDFFF) and not (0xD800 <= c2 <= 0xDFFF)
    """
    N = RNODES[t]
    if i >= len(N) or j >= len(N):
        return True
    a, b = N[i], N[j]
    text = RTEXTS[t]
    g = grammar(4)
    ls = TO.leaves(RTREES[t])
    off = {}
    o = 0
    for l in ls:
        off[id(l)] = (o, o + len(l.prefix) + len(l.value))
        o += len(l.prefix) + len(l.value)
    sa = (off[id(a.get_first_leaf())][0], off[id(a.get_last_leaf())][1])
    sb = (off[id(b.get_first_leaf())][0], off[id(b.get_last_leaf())][1])
    r1 = chr(c1)
    r2 = chr(c2) if n2 else ''
    def inside(x, y):
        while x is not None:
            if x is y:
                return True
            x = x.parent
        return False
    if sa[1] <= sb[0] and not inside(a, b) and not inside(b, a):      # disjoint, a before b: both replaced
        want = text[:sa[0]] + r1 + text[sa[1]:sb[0]] + r2 + text[sb[1]:]
        got = g.refactor(RTREES[t], {a: r1, b: r2})
    else:
        want = text[:sa[0]] + r1 + text[sa[1]:]
        got = g.refactor(RTREES[t], {a: r1})
    if got != want:
        return _no('c19: refactor gives %r, exact splice is %r' % (got, want))
    if g.refactor(RTREES[t], {}) != text:
        return _no('c19: refactor with an empty map changed the code')
    return True


def skel(prefix):
    """index of the label skeleton whose text starts with `prefix` (robust against reordering)"""
    for i, s in enumerate(SKELS):
        if ''.join(s).startswith(prefix):
            return i
    raise KeyError(prefix)
