"""C18 harnesses: purity (frame condition on shared state), isolation (results do not depend on what ran before,
including aborted calls) and re-entrancy (a second call running in the middle of a first one, the cooperative
model of a thread switch at token / visit granularity).  Selectors are realised; parso then runs natively."""
import os
import types

import parso
from parso.parser import ParserSyntaxError
from parso.python import tokenize as T
from parso.python.parser import Parser

from vp import treeoracle as TO

WHY = None
import gc as _gc
import sys as _sys
import warnings as _warnings


def interpreter_state():
    return (tuple(repr(f)[:120] for f in _warnings.filters), _sys.getrecursionlimit(), _gc.isenabled(), _sys.getswitchinterval())


BASELINE_INTERP = interpreter_state()      # before any parse / listing of this process
VERS = ['3.6', '3.10', '3.14']
ALLV = ['3.6', '3.7', '3.8', '3.9', '3.10', '3.11', '3.12', '3.13', '3.14']
G = {v: parso.load_grammar(version=v) for v in VERS}
TEXTS = [
    "def f():\n    a = 1\n    b c\n", "x = 1\nif x:\n  y = [1,\n 2]\nelse: $\n", "    x = 1\ny = 2\n",
    "class C:\n  def g(self):\n    while True:\n        x = = 1\n", "a = 1\n", "f(x := 1)\nglobal a\nbreak\n",
    "f'{a!r:>{w}}'\nawait b\n" + "nonlocal z\n", "if x:\n  if y:\n    z\nw", "def g(*, key, **kw): pass\nlambda a, /, b: a\n",
    "l = [i for i in range(3)]\nreturn 1\n*a, *b = c\n",
    'x = "a\\d" + b"\\777" + u"\\N{DASH}"\ny = """doc\n"""\n',
]


def _no(why):
    global WHY
    WHY = why
    return False


def result_of(v, text):
    """everything observable of parse + issue listing + tokenize for one (version, text)"""
    g = G[v]
    m = g.parse(text)
    toks = [(t.type.name, t.string, t.start_pos, t.prefix) for t in T.tokenize(text, version_info=g.version_info)]
    errs = [(i.code, i.message, i.start_pos, i.end_pos) for i in g.iter_errors(m)]
    try:
        pep = sorted((i.code, i.start_pos, i.end_pos) for i in g._get_normalizer_issues(m))
    except (AttributeError, AssertionError, IndexError):
        pep = 'known-crash'
    return (TO.fingerprint_values(m), toks, errs, pep)


def _fp_values(module):
    return [(type(n).__name__, n.type, getattr(n, 'value', None), getattr(n, 'prefix', None),
             n.start_pos, len(getattr(n, 'children', ()))) for n in TO.nodes(module)]


TO.fingerprint_values = _fp_values


# ---- shared state fingerprint -------------------------------------------------------------------------
def _deep(obj, depth=0, seen=None):
    """structural value of containers / defaults; identity for everything else"""
    if seen is None:
        seen = set()
    if id(obj) in seen or depth > 6:
        return ('ref', id(obj))
    if isinstance(obj, (str, bytes, int, float, bool, type(None))):
        return obj
    seen.add(id(obj))
    if isinstance(obj, dict):
        return ('dict', id(obj), tuple((repr(k)[:60], _deep(v, depth + 1, seen)) for k, v in obj.items()))
    if isinstance(obj, (list, tuple, set, frozenset)):
        return (type(obj).__name__, id(obj) if isinstance(obj, (list, set)) else 0,
                tuple(_deep(v, depth + 1, seen) for v in (sorted(obj, key=repr) if isinstance(obj, (set, frozenset)) else obj)))
    return ('obj', id(obj))


def shared_state():
    import sys
    from parso import grammar as GM, normalizer as NM
    from parso.pgen2 import generator as PG
    out = []
    mods = [m for n, m in sorted(sys.modules.items()) if n == 'parso' or n.startswith('parso.')]
    for m in mods:
        for name, val in sorted(vars(m).items()):
            if name.startswith('__') or isinstance(val, types.ModuleType):
                continue
            if isinstance(val, (dict, list, set)):
                if name in ('parser_cache', '_loaded_grammars', '_token_collection_cache'):
                    # memoisation: may grow on first use, entries are write-once -> identity of existing entries
                    out.append((m.__name__, name, 'memo', tuple(sorted((repr(k)[:80], id(v)) for k, v in val.items()))))
                else:
                    out.append((m.__name__, name, _deep(val)))
            elif isinstance(val, types.FunctionType):
                out.append((m.__name__, name, 'defaults', _deep(val.__defaults__), _deep(val.__kwdefaults__)))
            elif isinstance(val, type):
                for an, av in sorted(vars(val).items()):
                    if an.startswith('__'):
                        continue
                    if isinstance(av, (dict, list, set)):
                        out.append((m.__name__, name, an, _deep(av)))
                    elif isinstance(av, types.FunctionType):
                        out.append((m.__name__, name, an, 'defaults', _deep(av.__defaults__), _deep(av.__kwdefaults__)))
    # interpreter-global state a library call must leave alone
    import warnings
    import gc
    out.append(('interpreter', 'warnings.filters', tuple(repr(f)[:120] for f in warnings.filters)))
    out.append(('interpreter', 'misc', sys.getrecursionlimit(), gc.isenabled(), sys.getswitchinterval()))
    # generated tables of the loaded grammars
    for v in VERS:
        pg = G[v]._pgen_grammar
        for rule, dfas in pg.nonterminal_to_dfas.items():
            for s in dfas:
                out.append((v, rule, id(s), s.is_final, tuple(sorted((repr(k)[:40], id(p.next_dfa), tuple(id(x) for x in p.dfa_pushes))
                                                                for k, p in s.transitions.items()))))
        out.append((v, 'instance', tuple((k, _deep(val)) for k, val in sorted(vars(G[v]).items()) if not k.startswith('_pgen'))))
    return out


def _memo_grew_only(before, after):
    """same entries, except that memo dictionaries may have gained keys (first-use memoisation)"""
    if len(before) != len(after):
        return 'number of shared objects changed'
    for a, b in zip(before, after):
        if a == b:
            continue
        if len(a) > 2 and a[2] == 'memo' and b[2] == 'memo' and a[:2] == b[:2] and set(a[3]) <= set(b[3]):
            continue
        return 'shared state changed: %r -> %r' % (a[:3], b[:3])
    return None


WARM = {(v, i): result_of(v, t) for v in VERS for i, t in enumerate(TEXTS)}      # also warms every memo


def _go(fn, *xs):
    try:
        from crosshair.core import realize
        from crosshair.tracers import NoTracing
    except ImportError:
        return fn(*xs)
    xs = [realize(x) for x in xs]
    with NoTracing():
        return fn(*xs)


# ---- 1. frame condition + determinism + isolation -------------------------------------------------------
def _abort(v, k):
    """calls that end prematurely: strict parse raising inside a block, abandoned token generators"""
    g = G[v]
    if k == 0:
        try:
            g.parse("def f():\n    a = 1\n    b c\n", error_recovery=False)
        except ParserSyntaxError:
            pass
    elif k == 1:
        gen = T.tokenize("if x:\n    if y:\n        z\n", version_info=g.version_info)
        for _ in range(8):
            next(gen)
        del gen
    elif k == 2:
        try:
            g.parse("class A:\n  def g():\n    while True:\n        x = = 1\n", error_recovery=False)
        except ParserSyntaxError:
            pass
    elif k == 3:
        it = iter(g.iter_errors(g.parse(TEXTS[5])))
        try:
            next(it)
        except StopIteration:
            pass


def _isolation(vi, a, b, k):
    v = VERS[vi]
    before = shared_state()
    if k < 4:
        _abort(v, k)
    elif k < 4 + len(TEXTS):
        result_of(VERS[(vi + 1) % 3], TEXTS[k - 4])
    r1 = result_of(v, TEXTS[a])
    r2 = result_of(v, TEXTS[b])
    r1b = result_of(v, TEXTS[a])
    after = shared_state()
    if r1 != WARM[(v, a)]:
        return _no('result for text #%d (version %s) depends on what ran before (prior step %d)' % (a, v, k))
    if r2 != WARM[(v, b)] or r1b != r1:
        return _no('result for text #%d / #%d (version %s) is not reproducible after prior step %d' % (b, a, v, k))
    r = _memo_grew_only(before, after)
    if r:
        return _no(r)
    if interpreter_state() != BASELINE_INTERP:
        return _no('interpreter-global state changed since before the first parso call: warnings.filters / recursion limit / gc / '
                   'switch interval: %r -> %r' % (BASELINE_INTERP[1:], interpreter_state()[1:]) +
                   ' filters +%d' % (len(interpreter_state()[0]) - len(BASELINE_INTERP[0])))
    return True


def isolation(vi: int, a: int, b: int, k: int) -> bool:
    """
    require: 0 <= vi < 3 and 0 <= a < len(TEXTS) and 0 <= b < len(TEXTS) and 0 <= k < 4 + len(TEXTS)
    """
    return _go(_isolation, vi, a, b, k)


# ---- 2. re-entrancy: B runs completely in the middle of A ------------------------------------------------
def _reentrant_parse(vi, a, b, at):
    """A is parsed token by token; after its `at`-th token a complete parse + listing of B runs on the same
    grammar object (what a thread switch between two tokens does); A must be unaffected and so must B"""
    v = VERS[vi]
    g = G[v]
    text = TEXTS[a]
    fired = []

    def tokens():
        n = 0
        for t in g._tokenizer(parso.split_lines(text, keepends=True)):
            if n == at:
                fired.append(result_of(v, TEXTS[b]))
            n += 1
            yield t
        if not fired:
            fired.append(result_of(v, TEXTS[b]))
    m = Parser(g._pgen_grammar, error_recovery=True).parse(tokens())
    if fired[0] != WARM[(v, b)]:
        return _no('parse of text #%d running inside a parse of text #%d gives a different result' % (b, a))
    if TO.fingerprint_values(m) != WARM[(v, a)][0]:
        return _no('parse of text #%d is corrupted by a parse of #%d running after its token %d' % (a, b, at))
    return True


def reentrant_parse(vi: int, a: int, b: int, at: int) -> bool:
    """
    require: 0 <= vi < 3 and 0 <= a < len(TEXTS) and 0 <= b < len(TEXTS) and 0 <= at < 24
    """
    return _go(_reentrant_parse, vi, a, b, at)


def _reentrant_errors(vi, a, b, at, pep):
    """the same for issue listing: after the `at`-th visited leaf of A's walk a complete listing of B runs"""
    from parso.normalizer import Normalizer
    v = VERS[vi]
    g = G[v]
    ma = g.parse(TEXTS[a])
    mb = g.parse(TEXTS[b])
    which = 3 if pep else 2
    want_a, want_b = WARM[(v, a)][which], WARM[(v, b)][which]
    if want_a == 'known-crash' or want_b == 'known-crash':
        return True
    state = {'n': 0, 'inner': None, 'busy': False}
    orig = Normalizer.visit_leaf

    def listing(m):
        if pep:
            return sorted((i.code, i.start_pos, i.end_pos) for i in g._get_normalizer_issues(m))
        return [(i.code, i.message, i.start_pos, i.end_pos) for i in g.iter_errors(m)]

    def visit_leaf(self, leaf):
        if not state['busy']:
            if state['n'] == at:
                state['busy'] = True
                try:
                    state['inner'] = listing(mb)
                finally:
                    state['busy'] = False
            state['n'] += 1
        return orig(self, leaf)
    Normalizer.visit_leaf = visit_leaf
    try:
        got_a = listing(ma)
    finally:
        Normalizer.visit_leaf = orig
    if state['inner'] is not None and state['inner'] != want_b:
        return _no('listing of text #%d running inside a listing of #%d differs: %r vs %r' % (b, a, state['inner'][:3], want_b[:3]))
    if got_a != want_a:
        return _no('listing of text #%d is corrupted by a listing of #%d running after its leaf %d: %r vs %r' % (
            a, b, at, got_a[:3], want_a[:3]))
    return True


def reentrant_errors(vi: int, a: int, b: int, at: int, pep: bool) -> bool:
    """
    require: 0 <= vi < 3 and 0 <= a < len(TEXTS) and 0 <= b < len(TEXTS) and 0 <= at < 24
    """
    return _go(_reentrant_errors, vi, a, b, at, pep)


def _interleaved_tokenizers(vi, a, b, s):
    """two token generators advanced alternately under schedule bits s"""
    v = VERS[vi]
    vinfo = G[v].version_info
    ga = T.tokenize(TEXTS[a], version_info=vinfo)
    gb = T.tokenize(TEXTS[b], version_info=vinfo)
    ra, rb = [], []
    da = db = False
    i = 0
    while not (da and db):
        pick_a = ((s >> (i % 16)) & 1 == 0) and not da or db
        i += 1
        if pick_a:
            try:
                t = next(ga)
                ra.append((t.type.name, t.string, t.start_pos, t.prefix))
            except StopIteration:
                da = True
        else:
            try:
                t = next(gb)
                rb.append((t.type.name, t.string, t.start_pos, t.prefix))
            except StopIteration:
                db = True
    if ra != WARM[(v, a)][1] or rb != WARM[(v, b)][1]:
        return _no('token streams of #%d and #%d differ when interleaved with schedule %s' % (a, b, bin(s)))
    return True


def interleaved_tokenizers(vi: int, a: int, b: int, s: int) -> bool:
    """
    require: 0 <= vi < 3 and 0 <= a < len(TEXTS) and 0 <= b < len(TEXTS) and 0 <= s < 256
    """
    return _go(_interleaved_tokenizers, vi, a, b, s)


# ---- 3. grammar loading: order and custom paths --------------------------------------------------------
def _loading(order, vi):
    """a grammar loaded from an explicit path (the shipped 3.6 text) and a grammar loaded by version, in both orders"""
    import hashlib
    from parso import grammar as GM
    v = ALLV[vi]
    base = os.path.join(os.path.dirname(parso.__file__), 'python')
    src = os.path.join(base, 'grammar36.txt')
    saved = dict(GM._loaded_grammars)
    try:
        GM._loaded_grammars.clear()
        if order:
            custom = parso.load_grammar(path=src, version=v)
            std = parso.load_grammar(version=v)
        else:
            std = parso.load_grammar(version=v)
            custom = parso.load_grammar(path=src, version=v)
        want_std = open(os.path.join(base, 'grammar%s.txt' % v.replace('.', ''))).read()
        if std._hashed != hashlib.sha256(want_std.encode('utf-8')).hexdigest():
            return _no('load_grammar(version=%s) returned a grammar built from another text (custom path loaded %s)' % (
                v, 'first' if order else 'second'))
        if custom._hashed != hashlib.sha256(open(src).read().encode('utf-8')).hexdigest():
            return _no('load_grammar(path=...) returned a grammar built from another text')
        if parso.load_grammar(version=v) is not std or parso.load_grammar(path=src, version=v) is not custom:
            return _no('load_grammar is not memoised consistently')
    finally:
        GM._loaded_grammars.clear()
        GM._loaded_grammars.update(saved)
    return True


def loading(order: bool, vi: int) -> bool:
    """
    require: 0 <= vi < 9
    """
    return _go(_loading, order, vi)
