"""Plain-Python re-evaluation of grammar-table counterexamples (no solver): used by replay scripts.
Exit status 1 = the violation reproduces on the tree under /repo."""
import re
import sys
from ast import literal_eval

from . import ebnf as zg


def canon(label):
    return 'str:' + literal_eval(label) if label[0] in '"\'' else label


def _key(label):
    c = canon(label)
    return ('kw', c[4:]) if c.startswith('str:') else ('tok', c)


def _tkey(tr):
    from parso.pgen2.generator import ReservedString
    return ('kw', tr.value) if isinstance(tr, ReservedString) else ('tok', tr.name)


def impl_rule_dfas(text):
    from parso.pgen2.grammar_parser import GrammarParser
    from parso.pgen2 import generator as G
    out, start = {}, None
    for a, z in GrammarParser(text).parse():
        dfas = G._make_dfas(a, z)
        G._simplify_dfas(dfas)
        out[a.from_rule] = dfas
        if start is None:
            start = a.from_rule
    return start, out


def load(text):
    from parso.pgen2.generator import generate_grammar
    from parso.python.token import PythonTokenTypes
    try:
        return generate_grammar(text, PythonTokenTypes), None
    except ValueError as e:
        return None, e


def spec_of(text):
    order, rhs = zg.read_rules(text)
    sym = zg.SymTab()
    csym = lambda x: sym(canon(x))
    asts = {n: zg.Rhs(rhs[n]).parse() for n in order}
    pats = {n: re.compile(zg.to_pyre(asts[n], csym)) for n in order}
    return order, asts, pats, csym


def first_sets(order, asts):
    nts = set(order)

    def firstsym(a):
        k = a[0]
        if k == 'sym':
            return {canon(a[1])}, False
        if k == 'alt':
            s, nl = set(), False
            for x in a[1]:
                f, n = firstsym(x)
                s |= f
                nl |= n
            return s, nl
        if k == 'cat':
            s = set()
            for x in a[1]:
                f, n = firstsym(x)
                s |= f
                if not n:
                    return s, False
            return s, True
        f, n = firstsym(a[1])
        return f, (True if k in ('opt', 'star') else n)
    fs = {n: firstsym(asts[n])[0] for n in order}
    first = {n: {_k(x) for x in fs[n] if x not in nts} for n in order}
    changed = True
    while changed:
        changed = False
        for n in order:
            for m in fs[n]:
                if m in nts and not first[m] <= first[n]:
                    first[n] |= first[m]
                    changed = True
    return fs, first


def _k(c):
    return ('kw', c[4:]) if c.startswith('str:') else ('tok', c)


def dfa_accepts(dfas, labels):
    st = dfas[0]
    for lab in labels:
        nxt = None
        for l2, n2 in st.arcs.items():
            if canon(l2) == lab:
                nxt = n2
        if nxt is None:
            return False
        st = nxt
    return st.is_final


def replay(text, witness):
    """-> True if the violation described by `witness` reproduces"""
    kind = witness['kind']
    g, err = load(text)
    order, asts, pats, csym = spec_of(text)
    fs, first = first_sets(order, asts)
    nts = set(order)
    if kind == 'O1':
        dfas = g.nonterminal_to_dfas if g is not None else impl_rule_dfas(text)[1]
        labels = witness['sentence']
        word = ''.join(csym_raw(csym, x) for x in labels)
        in_spec = pats[witness['rule']].fullmatch(word) is not None
        in_impl = dfa_accepts(dfas[witness['rule']], labels)
        print('rule', witness['rule'], 'sentence', labels, 'grammar text accepts:', in_spec, 'DFA accepts:', in_impl)
        return in_spec != in_impl
    if kind == 'O3':
        st = g.nonterminal_to_dfas[witness['rule']][witness['state']]
        k = tuple(witness['token'])
        claim = set()
        for lab, nxt in st.arcs.items():
            c = canon(lab)
            if (c in nts and k in first[c]) or (c not in nts and _key(lab) == k):
                claim.add(id(nxt))
        plan = None
        for tr, p in st.transitions.items():
            if _tkey(tr) == k:
                plan = p
        print('state', witness['rule'], witness['state'], 'token', k, 'spec claims:', len(claim), 'impl plan:', plan)
        if (plan is not None) != bool(claim):
            return True
        if plan is None:
            return False
        if id(plan.next_dfa) not in claim:
            return True
        # chain: every push must be reachable by an arc claiming k from the start state of its rule
        cur = None
        for lab, nxt in st.arcs.items():
            if nxt is plan.next_dfa and canon(lab) in nts and k in first[canon(lab)]:
                cur = canon(lab)
        pushes = list(plan.dfa_pushes)
        if cur is None:
            return bool(pushes)
        for j, p in enumerate(pushes):
            s0 = g.nonterminal_to_dfas[cur][0]
            nxt_rule = None
            okay = False
            for lab, nx in s0.arcs.items():
                if nx is p:
                    c = canon(lab)
                    if j == len(pushes) - 1 and c not in nts and _key(lab) == k:
                        okay = True
                    elif j < len(pushes) - 1 and c in nts and k in first[c]:
                        okay, nxt_rule = True, c
            if not okay:
                return True
            cur = nxt_rule
        return not pushes
    if kind in ('accept-non-ll1', 'reject-ll1'):
        # recompute the LL(1) verdict without the solver
        ll1 = True
        why = ''
        # left recursion
        seen = {}

        def visit(n, stack):
            nonlocal ll1, why
            if n in stack:
                ll1, why = False, 'left recursion via %s' % n
                return
            if seen.get(n):
                return
            seen[n] = True
            for m in fs[n]:
                if m in nts:
                    visit(m, stack | {n})
        for n in order:
            visit(n, frozenset())
        if ll1:
            for n, dfas in impl_rule_dfas(text)[1].items():
                for st in dfas:
                    claimed = {}
                    for lab in st.arcs:
                        c = canon(lab)
                        ks = first[c] if c in nts else {_key(lab)}
                        for k in ks:
                            if k in claimed:
                                ll1, why = False, 'state of %s claims %s twice' % (n, k)
                            claimed[k] = lab
        print('LL(1) by plain fixpoint:', ll1, why, '| generate_grammar:', 'accepted' if g else 'raised %r' % (err,))
        return ll1 != (g is not None)
    if kind == 'O5':
        strings = {_k(canon(x))[1] for n in order for x in _syms(asts[n]) if canon(x).startswith('str:')}
        return strings != set(g.reserved_syntax_strings)
    if kind in ('rules', 'start'):
        return list(g.nonterminal_to_dfas) != order or g.start_nonterminal != order[0]
    if kind == 'namespace':
        import enum
        from parso.pgen2.generator import generate_grammar, ReservedString
        from parso.python.token import PythonTokenTypes, TokenType
        generate_grammar(text, PythonTokenTypes)
        Alt = enum.Enum('AltTokenTypes', {m.name: TokenType(m.name, m.value.contains_syntax) for m in PythonTokenTypes})
        g2 = generate_grammar(text, Alt)
        bad = [k for d in g2.nonterminal_to_dfas.values() for st in d for k in st.transitions
               if not isinstance(k, ReservedString) and k is not getattr(Alt, k.name, None)]
        print('token keys from a foreign namespace:', len(bad))
        return bool(bad)
    if kind == 'nullable':
        return any(pats[n].fullmatch('') for n in order)
    print('no plain replay for witness kind', kind)
    return None


def _syms(a):
    if a[0] == 'sym':
        yield a[1]
    elif a[0] in ('alt', 'cat'):
        for x in a[1]:
            yield from _syms(x)
    else:
        yield from _syms(a[1])


def csym_raw(csym, canon_label):
    # csym canonicalises raw labels; here the label is already canonical
    if canon_label.startswith('str:'):
        return csym(repr(canon_label[4:]))
    return csym(canon_label)


def main(text, witness):
    r = replay(text, witness)
    if r is None:
        sys.exit(2)
    print('REPRODUCED' if r else 'not reproduced')
    sys.exit(1 if r else 0)
