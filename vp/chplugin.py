"""CrossHair 0.0.110 plugin owned by this framework (trusted base, DESIGN 3.3):
 1. relib._match_pattern / builtinslib._str_contains evaluate len() of a lazily concatenated symbolic
    string with tracing off -> CrossHairInternal; wrapped in ResumedTracing.
 2. str.isidentifier on symbolic strings: exact per-character XID_Start / XID_Continue masks computed
    from the running interpreter instead of realising the characters.
Everything is defined inside functions: plugin globals vanish after exec."""
def _install():
    import operator
    from crosshair.libimpl import relib
    from crosshair.tracers import ResumedTracing, is_tracing

    def _match_pattern(compiled_regex, orig_str, pos, endpos=None, subpattern=None,
                       allow_empty=True, ord=ord, chr=chr):
        assert not is_tracing()
        if subpattern is None:
            subpattern = relib.parse(compiled_regex.pattern, compiled_regex.flags)
        with ResumedTracing():
            trimmed_str = orig_str[:endpos]
        matchpart = relib._internal_match_patterns(
            subpattern, compiled_regex.flags, trimmed_str, pos, allow_empty, ord=ord, chr=chr)
        if matchpart is None:
            return None
        match_start, match_end = matchpart._fullspan()
        if relib._traced_binop(match_start, operator.eq, match_end):
            with ResumedTracing():
                n = len(orig_str)
            matchpart._clamp_all_spans(0, n)
        return relib._Match(matchpart._groups, pos, endpos, compiled_regex, orig_str)

    relib._match_pattern = _match_pattern
_install()

def _install_isidentifier():
    from crosshair.libimpl import builtinslib as B
    from crosshair.unicode_categories import get_char_predicate_mask, CharMask
    from crosshair.statespace import context_statespace
    from crosshair.tracers import NoTracing, ResumedTracing
    import z3
    start_mask = get_char_predicate_mask(lambda ch: True if ch.isidentifier() else None)
    cont_mask = get_char_predicate_mask(lambda ch: True if ('a' + ch).isidentifier() else None)

    def isidentifier(self):
        with NoTracing():
            space = context_statespace()
            with ResumedTracing():
                n = self.__len__()
                if n == 0:
                    return False
                first = True
                for char in self:
                    cp = ord(char)
                    with NoTracing():
                        if isinstance(cp, int):
                            ok = (start_mask if first else cont_mask).covers(cp)
                        else:
                            smt = B.SymbolicInt._coerce_to_smt_sort(cp)
                            ok = space.smt_fork((start_mask if first else cont_mask).smt_matches(smt))
                        if not ok:
                            return False
                    first = False
        return True
    B.AnySymbolicStr.isidentifier = isidentifier
_install_isidentifier()

def _install_contains():
    from crosshair.libimpl import builtinslib as B
    from crosshair.tracers import NoTracing, ResumedTracing
    from crosshair.core import realize, register_patch
    import z3
    orig = B._str_contains
    def _str_contains(self, other):
        with NoTracing():
            if not isinstance(self, str):
                raise TypeError
            if not isinstance(other, B.AnySymbolicStr):
                return self.__contains__(other)
            with ResumedTracing():
                n = other.__len__()
            len_to_find = realize(n)
            my_codepoints = [ord(c) for c in self]
            num_options = len(self) + 1 - len_to_find
            with ResumedTracing():
                other_codepoints = [ord(c) for c in other]
            other_codepoints = list(map(B.SymbolicInt._coerce_to_smt_sort, other_codepoints))
            codepoint_options = [my_codepoints[i:i + len_to_find] for i in range(num_options)]
            conjunctions = [z3.And(*(cp1 == cp2 for (cp1, cp2) in zip(other_codepoints, cps)))
                            for cps in codepoint_options]
            return B.SymbolicBool(z3.Or(*conjunctions)) if conjunctions else False
    B._str_contains = _str_contains
    from crosshair import core
    core._PATCH_REGISTRATIONS[str.__contains__] = _str_contains
_install_contains()
