"""Obligations O1-O5 of DESIGN 3.2 for one grammar text (shipped file or synthetic grammar)."""
import time
from ast import literal_eval

import z3

from . import zgrammar as zg
from .core import HOLDS, VIOLATED, INCONCLUSIVE


def canon(label):
    if label[0] in '"\'':
        return 'str:' + literal_eval(label)
    return label


def key_of_label(label):
    c = canon(label)
    return ('kw', c[4:]) if c.startswith('str:') else ('tok', c)


def key_of_transition(tr):
    from parso.pgen2.generator import ReservedString
    if isinstance(tr, ReservedString):
        return ('kw', tr.value)
    return ('tok', tr.name)


class Spec:
    """Everything derived from the grammar text alone (with the solver)."""

    def __init__(self, text):
        self.sym = zg.SymTab()
        self.order, self.rhs_text = zg.read_rules(text)
        self.re = {}
        self.symbols = {}
        self.ast = {}
        self.csym = csym = lambda x: self.sym(canon(x))
        for name in self.order:
            p = zg.Rhs(self.rhs_text[name])
            self.ast[name] = p.parse()
            self.re[name] = zg.to_z3(self.ast[name], csym)
            self.symbols[name] = [canon(x) for x in p.symbols]
        self.nonterminals = set(self.order)
        self.seconds = 0.0
        self.unknown = []

    def compute_first_symbols(self):
        self.fs, self.nullable = {}, {}
        for name in self.order:
            cands = list(dict.fromkeys(self.symbols[name]))
            s, nullable, dt, unk = zg.first_symbols(self.re[name], cands, self.sym)
            self.seconds += dt
            self.unknown += [(name, u) for u in unk]
            self.fs[name], self.nullable[name] = s, nullable
        return self.fs

    def undefined_symbols(self, token_names):
        bad = []
        for name in self.order:
            for x in self.symbols[name]:
                if x.startswith('str:') or x in self.nonterminals:
                    continue
                if x not in token_names:
                    bad.append((name, x))
        return bad

    def acyclic(self):
        """begins-with graph over nonterminals has a rank function (no left recursion)."""
        rank = {n: z3.Int('rank_' + n) for n in self.order}
        cs = []
        for n in self.order:
            for m in self.fs[n]:
                if m in self.nonterminals:
                    cs.append(rank[n] > rank[m])
        r, _, dt = zg.solve(cs, 20000)
        self.seconds += dt
        return r  # 'sat' = acyclic


def impl_rule_dfas(text):
    """The implementation's per-rule DFAs *before* table calculation (also available for grammars
    generate_grammar rejects)."""
    from parso.pgen2.grammar_parser import GrammarParser
    from parso.pgen2 import generator as G
    out, start = {}, None
    for a, z in GrammarParser(text).parse():
        dfas = G._make_dfas(a, z)
        G._simplify_dfas(dfas)
        out[a.from_rule] = dfas
        if start is None:
            start = a.from_rule
    return start, out


def check_grammar(text, token_namespace, label, want_follow=False, timeout_ms=60000, mutate=None):
    """-> list of result dicts {name, verdict, seconds, detail, witness, nonvacuous, kind}"""
    from parso.pgen2.generator import generate_grammar
    res = []

    def add(name, verdict, seconds, detail='', **kw):
        res.append(dict(name='%s:%s' % (label, name), verdict=verdict, seconds=seconds,
                        detail=detail, **kw))

    t0 = time.time()
    spec = Spec(text)
    token_names = set(dir(token_namespace))
    undefined = spec.undefined_symbols(token_names)
    spec.compute_first_symbols()
    acyc = spec.acyclic()
    if spec.unknown or acyc not in ('sat', 'unsat'):
        add('spec-first', INCONCLUSIVE, spec.seconds, 'z3 unknown on %r' % (spec.unknown[:3],))
        return res, spec, None

    # --- solver-side FIRST (terminal keys) and LL(1) verdict of the specification -------------
    try:
        start, dfas = impl_rule_dfas(text)
        impl_err = None
    except Exception as e:  # grammar text the implementation cannot even read
        start, dfas, impl_err = None, None, e
    try:
        g = generate_grammar(text, token_namespace)
        gen_err = None
    except ValueError as e:
        g, gen_err = None, e
    except AttributeError as e:
        g, gen_err = None, e
    if mutate is not None and g is not None:
        mutate(g)   # built-in broken twin: the checks below must notice
    if impl_err is not None:
        add('read', VIOLATED if not undefined else HOLDS, 0.0,
            'implementation cannot read the grammar text: %r' % (impl_err,), nonvacuous=True)
        return res, spec, g

    # O1 on the pre-table DFAs (same objects the tables are built from when g exists)
    rules_dfas = g.nonterminal_to_dfas if g is not None else dfas
    if list(rules_dfas) != spec.order:
        add('O1-rules', VIOLATED, 0.0, 'rule list differs: %r vs %r' % (list(rules_dfas)[:5], spec.order[:5]),
            witness={'kind': 'rules'})
    if g is not None and g.start_nonterminal != spec.order[0]:
        add('O1-start', VIOLATED, 0.0, 'start %r != %r' % (g.start_nonterminal, spec.order[0]),
            witness={'kind': 'start'})
    csym = lambda x: spec.sym(canon(x))
    t_o1, worst = 0.0, (0, None)
    bad = []
    for name in spec.order:
        if name not in rules_dfas:
            continue
        impl_re = zg.dfa_to_re(rules_dfas[name], csym)
        r, wit, dt = zg.language_equal(spec.re[name], impl_re, timeout_ms)
        t_o1 += dt
        if dt > worst[0]:
            worst = (dt, name)
        if r == 'sat':
            bad.append((name, spec.sym.decode(wit)))
        elif r != 'unsat':
            add('O1:%s' % name, INCONCLUSIVE, dt, 'z3 %s' % r)
    if bad:
        name, w = bad[0]
        add('O1', VIOLATED, t_o1, 'L(DFA %s) != L(rhs): distinguishing sentence %r (%d rules differ)' % (
            name, w, len(bad)), witness={'kind': 'O1', 'rule': name, 'sentence': w})
    else:
        add('O1', HOLDS, t_o1, '%d rules, language equality DFA = right-hand side, worst %s %.2fs' % (
            len(spec.order), worst[1], worst[0]), nonvacuous=len(spec.order) > 0,
            bound='sentences of unbounded length; all %d rules' % len(spec.order))

    # --- FIRST as the solver's unique solution of the equations -------------------------------
    keys = sorted({key_of_label(x) for n in spec.order for x in spec.symbols[n]
                   if x not in spec.nonterminals})
    s = z3.Solver()
    s.set('timeout', timeout_ms)
    F = {(n, k): z3.Bool('F_%s_%s_%s' % (n, k[0], k[1])) for n in spec.order for k in keys}
    if acyc == 'sat':
        for n in spec.order:
            for k in keys:
                direct = any(key_of_label(x) == k for x in spec.fs[n] if x not in spec.nonterminals)
                via = [F[(m, k)] for m in spec.fs[n] if m in spec.nonterminals]
                s.add(F[(n, k)] == z3.Or(z3.BoolVal(direct), *via))
    t1 = time.time()
    spec_ll1 = None
    conflict = None
    idx = {}
    states = []
    start_of = {n: d[0] for n, d in rules_dfas.items() if d}
    for n in spec.order:
        for i, st in enumerate(rules_dfas.get(n, [])):
            idx[id(st)] = (n, i)
            states.append((n, i, st))

    def claims(st, k):
        """list of (arc label, z3 bool: this arc claims token k)"""
        out = []
        for lab in st.arcs:
            c = canon(lab)
            if c in spec.nonterminals:
                out.append((lab, F[(c, k)]))
            else:
                out.append((lab, z3.BoolVal(key_of_label(lab) == k)))
        return out

    if acyc != 'sat':
        spec_ll1 = False
        conflict = 'left recursion'
    else:
        # exists state, token claimed by two arcs?
        disj = []
        tag = {}
        for n, i, st in states:
            for k in keys:
                cl = [b for _, b in claims(st, k)]
                if len(cl) >= 2:
                    v = z3.Bool('conf_%s_%d_%s_%s' % (n, i, k[0], k[1]))
                    s.add(v == z3.Not(z3.AtMost(*cl, 1)))
                    disj.append(v)
                    tag[str(v)] = (n, i, k)
        s.push()
        s.add(z3.Or(*disj) if disj else z3.BoolVal(False))
        r = str(s.check())
        if r == 'sat':
            m = s.model()
            hit = [tag[str(v)] for v in disj if z3.is_true(m.eval(v))]
            spec_ll1, conflict = False, 'state %s#%d token %s claimed twice' % (hit[0][0], hit[0][1], hit[0][2])
        elif r == 'unsat':
            spec_ll1 = True
        s.pop()
    dt_ll1 = time.time() - t1
    if spec_ll1 is None:
        add('O4-ll1', INCONCLUSIVE, dt_ll1, 'z3 unknown')
        return res, spec, g

    if undefined:
        # text mentions a terminal that is no token type: generate_grammar must not accept silently
        if g is not None:
            add('O5-undefined-terminal', VIOLATED, 0.0, 'accepted undefined terminal %r' % (undefined[0],),
                witness={'kind': 'undefined'})
        return res, spec, g

    if not spec_ll1:
        if g is not None:
            add('O4-reject', VIOLATED, dt_ll1,
                'grammar is not LL(1) (%s) but generate_grammar accepted it' % conflict,
                witness={'kind': 'accept-non-ll1', 'why': conflict})
        else:
            add('O4-reject', HOLDS, dt_ll1, 'not LL(1) (%s); rejected with %r' % (conflict, str(gen_err)[:80]),
                nonvacuous=True)
        return res, spec, g
    if g is None:
        add('O4-accept', VIOLATED, dt_ll1, 'grammar is LL(1) but generate_grammar raised %r' % (gen_err,),
            witness={'kind': 'reject-ll1', 'error': str(gen_err)})
        return res, spec, g
    add('O4-ll1', HOLDS, dt_ll1, 'no state claims a token through two arcs; begins-with graph acyclic',
        nonvacuous=True, bound='all %d states x %d token keys' % (len(states), len(keys)))

    # --- O3: the token-to-action table of every state ------------------------------------------
    t2 = time.time()
    diffs, tag = [], {}
    n_pairs = 0
    impl_keys = set()
    for n, i, st in states:
        impl_dom = {}
        for tr, plan in st.transitions.items():
            impl_dom[key_of_transition(tr)] = plan
        impl_keys |= set(impl_dom)
        for k in sorted(set(keys) | set(impl_dom)):
            n_pairs += 1
            if k not in keys:
                v = z3.BoolVal(True)   # implementation has a key the text never mentions
                diffs.append(v)
                tag[len(diffs) - 1] = (n, i, k, 'token not in grammar text')
                continue
            specv = z3.Or(*[b for _, b in claims(st, k)]) if st.arcs else z3.BoolVal(False)
            implv = k in impl_dom
            d = z3.Bool('diff_%s_%d_%s_%s' % (n, i, k[0], k[1]))
            s.add(d == (specv != z3.BoolVal(implv)))
            diffs.append(d)
            tag[len(diffs) - 1] = (n, i, k, 'domain')
            if implv:
                # next state and push chain: walk the chain the plan encodes
                plan = impl_dom[k]
                ok = chain_formula(st, plan, k, F, spec, idx, start_of)
                c = z3.Bool('chain_%s_%d_%s_%s' % (n, i, k[0], k[1]))
                s.add(c == z3.Not(ok))
                diffs.append(c)
                tag[len(diffs) - 1] = (n, i, k, 'next_dfa/dfa_pushes')
    s.push()
    s.add(z3.Or(*diffs))
    r = str(s.check())
    dt_o3 = time.time() - t2
    if r == 'sat':
        m = s.model()
        hit = [tag[j] for j, v in enumerate(diffs) if z3.is_true(m.eval(v, model_completion=True))]
        n, i, k, what = hit[0]
        add('O3-table', VIOLATED, dt_o3, 'state %s#%d token %s: %s differs from "terminal arcs + FIRST of '
            'nonterminal arcs" (%d entries differ)' % (n, i, k, what, len(hit)),
            witness={'kind': 'O3', 'rule': n, 'state': i, 'token': list(k), 'what': what})
    elif r == 'unsat':
        add('O3-table', HOLDS, dt_o3, '%d (state, token) pairs: domain, next_dfa, dfa_pushes' % n_pairs,
            nonvacuous=n_pairs > 0, bound='all %d states x all token keys' % len(states))
    else:
        add('O3-table', INCONCLUSIVE, dt_o3, 'z3 unknown')
    s.pop()

    # --- O5 reserved strings ---------------------------------------------------------------------
    text_strings = {k[1] for k in keys if k[0] == 'kw'}
    impl_strings = set(g.reserved_syntax_strings)
    ok5 = text_strings == impl_strings and all(
        g.reserved_syntax_strings[v].value == v for v in impl_strings)
    add('O5-reserved', HOLDS if ok5 else VIOLATED, 0.0,
        '%d quoted terminals' % len(text_strings) if ok5 else
        'reserved strings differ: %r' % sorted(text_strings ^ impl_strings)[:5],
        nonvacuous=bool(text_strings), kind='table-compare',
        **({} if ok5 else {'witness': {'kind': 'O5'}}))

    if want_follow:
        res += follow_conflicts(label, spec, g, states, s, F, keys)
    return res, spec, g


def chain_formula(st, plan, k, F, spec, idx, start_of):
    """z3 formula: `plan` is the action the specification prescribes for token k in state st:
    the arc X of st claiming k leads to plan.next_dfa, and dfa_pushes is the chain
    X.s0 -X1-> p1, X1.s0 -X2-> p2, ..., Xn.s0 -k-> pn (each Xi claiming k)."""
    pushes = list(plan.dfa_pushes)
    NT = spec.nonterminals

    def descend(cur, j):
        s0 = start_of.get(cur)
        p = pushes[j]
        if s0 is None or idx.get(id(p), (None,))[0] != cur:
            return z3.BoolVal(False)
        alts = []
        for lab2, nx2 in s0.arcs.items():
            if nx2 is not p:
                continue
            c2 = canon(lab2)
            if j == len(pushes) - 1:
                if c2 not in NT and key_of_label(lab2) == k:
                    alts.append(z3.BoolVal(True))
            elif c2 in NT:
                alts.append(z3.And(F[(c2, k)], descend(c2, j + 1)))
        return z3.Or(*alts) if alts else z3.BoolVal(False)

    alts = []
    for lab, nxt in st.arcs.items():
        if nxt is not plan.next_dfa:
            continue
        c = canon(lab)
        if c not in NT:
            if key_of_label(lab) == k and not pushes:
                alts.append(z3.BoolVal(True))
        elif pushes:
            alts.append(z3.And(F[(c, k)], descend(c, 0)))
    return z3.Or(*alts) if alts else z3.BoolVal(False)


def follow_conflicts(label, spec, g, states, s, F, keys):
    """FIRST/FOLLOW conflicts and nullable rules: with O4 this is the condition under which the
    greedy table-driven parser accepts exactly the grammar's language (used by C06)."""
    res = []
    t0 = time.time()
    nullable = [n for n in spec.order if spec.nullable[n]]
    res.append(dict(name='%s:O4b-nullable' % label, verdict=HOLDS if not nullable else VIOLATED,
                    seconds=0.0, detail='no rule derives the empty sentence' if not nullable else
                    'nullable rules %r' % nullable, nonvacuous=True,
                    **({} if not nullable else {'witness': {'kind': 'nullable', 'rules': nullable}})))
    # FOLLOW as least fixpoint with z3's Datalog engine over bit-vector ids
    fp = z3.Fixedpoint()
    fp.set(engine='datalog')
    B = z3.BitVecSort(12)
    follow = z3.Function('follow', B, B, z3.BoolSort())
    conflict = z3.Function('conflict', B, B, z3.BoolSort())
    fp.register_relation(follow, conflict)
    nid = {n: i for i, n in enumerate(spec.order)}
    kid = {}

    def kv(k):
        if k not in kid:
            kid[k] = len(kid)
        return z3.BitVecVal(kid[k], B)
    T = z3.Const('T', B)
    fp.declare_var(T)
    st_id = {}
    for n, i, st in states:
        st_id[id(st)] = len(st_id)
    for n, i, st in states:
        for lab, nxt in st.arcs.items():
            c = canon(lab)
            if c not in spec.nonterminals:
                continue
            N = z3.BitVecVal(nid[c], B)
            for tr in nxt.transitions:
                fp.fact(follow(N, kv(key_of_transition(tr))))
            if nxt.is_final:
                fp.rule(follow(N, T), [follow(z3.BitVecVal(nid[n], B), T)])
    finals = 0
    for n, i, st in states:
        if st.is_final:
            for tr in st.transitions:
                finals += 1
                k = kv(key_of_transition(tr))
                fp.rule(conflict(z3.BitVecVal(st_id[id(st)], B), k),
                        [follow(z3.BitVecVal(nid[n], B), k)])
    S = z3.Const('S', B)
    fp.declare_var(S)
    r = str(fp.query(z3.Exists([S, T], conflict(S, T)))) if finals else 'unsat'
    dt = time.time() - t0
    if r == 'unsat':
        res.append(dict(name='%s:O4b-first-follow' % label, verdict=HOLDS, seconds=dt,
                        detail='no final state has an outgoing token that is also in FOLLOW of its rule '
                               '(%d candidate pairs)' % finals, nonvacuous=finals > 0,
                        bound='least fixpoint over all rules (Datalog)'))
    elif r == 'sat':
        ans = fp.get_answer()
        res.append(dict(name='%s:O4b-first-follow' % label, verdict=VIOLATED, seconds=dt,
                        detail='FIRST/FOLLOW conflict: %s' % str(ans)[:200],
                        witness={'kind': 'first-follow', 'answer': str(ans)[:200]}))
    else:
        res.append(dict(name='%s:O4b-first-follow' % label, verdict=INCONCLUSIVE, seconds=dt, detail=r))
    return res
