"""Reference predicates used by the harnesses (plain Python; small enough to read in one sitting).
They are part of the trusted base and are validated against the repository's own test material
by tools/validate_oracles.py."""

BOM = '﻿'


def walk(pos, s, bom_allowed=False):
    """Position after text `s` starting at `pos`: only \\n, \\r\\n and \\r break lines; every other
    character is one column; a BOM as the very first character of the file has width 0."""
    ln, c = pos
    i = 0
    n = len(s)
    while i < n:
        ch = s[i]
        if ch == '\r':
            if i + 1 < n and s[i + 1] == '\n':
                i += 1
            ln += 1
            c = 0
        elif ch == '\n':
            ln += 1
            c = 0
        elif ch == BOM and bom_allowed and i == 0:
            pass
        else:
            c += 1
        i += 1
    return ln, c


def ref_split_lines(s):
    """Reference line splitter (keepends): breaks exactly after \\n, \\r\\n, \\r."""
    out = []
    cur = ''
    i = 0
    n = len(s)
    while i < n:
        ch = s[i]
        if ch == '\r':
            if i + 1 < n and s[i + 1] == '\n':
                out.append(cur + '\r\n')
                i += 2
            else:
                out.append(cur + '\r')
                i += 1
            cur = ''
        elif ch == '\n':
            out.append(cur + '\n')
            cur = ''
            i += 1
        else:
            cur += ch
            i += 1
    out.append(cur)
    return out


def is_pure_prefix(p, first):
    """p is in the pure-prefix language: BOM? (W (comment | NL | backslash NL))* W with
    W = [ \\t\\f]*, comment = #[^\\r\\n]*.  (BOM only if `first`.)"""
    i = 0
    n = len(p)
    if first and n > 0 and p[0] == BOM:
        i = 1
    while i < n:
        ch = p[i]
        if ch == ' ' or ch == '\t' or ch == '\f' or ch == '\n':
            i += 1
        elif ch == '\r':
            i += 1
        elif ch == '#':
            i += 1
            while i < n and p[i] != '\n' and p[i] != '\r':
                i += 1
        elif ch == '\\':
            if i + 1 < n and (p[i + 1] == '\n' or p[i + 1] == '\r'):
                i += 1
            else:
                return False
        else:
            return False
    return True


def comment_formfeed_crash(p):
    """Known finding `prefix-comment-formfeed`: a comment contains a form feed and the text after
    it (up to the end of the line) is not again spacing / '#...' / form feeds - the second lexer
    (prefix.py) has no alternative for it."""
    i = 0
    n = len(p)
    while i < n:
        if p[i] == '#':
            # scan this comment line
            seen_ff = False
            j = i + 1
            incomment = True     # as the prefix lexer sees it
            while j < n and p[j] != '\n' and p[j] != '\r':
                cj = p[j]
                if cj == '\f':
                    seen_ff = True
                    incomment = False
                elif not incomment:
                    if cj == '#':
                        incomment = True
                    elif cj == ' ' or cj == '\t':
                        pass
                    elif cj == '\\' and j + 1 < n and (p[j + 1] == '\n' or p[j + 1] == '\r'):
                        pass
                    else:
                        return True
                j += 1
            i = j
        else:
            i += 1
    return False
