"""Source of MANIFEST.json (run /verif/tools/mk_manifest.py after editing)."""
TODO = 'check not built yet in this round (planned, see DESIGN.md section 4); not claimed until it exists'
CHECKS = {
 'C08': dict(engine='z-grammar', ref='DESIGN.md 3.2, 4/C08',
   technique='SMT (z3) regular-language equivalence and table queries over the real generated automata',
   text='Decision by z3 for all sentences (unbounded length) of every rule of every shipped grammar file: L(generated DFA) = L(right-hand side read independently from the text); one propositional query per grammar over all (state, token) pairs for domain/next state/push chain = "terminal arcs + FIRST of nonterminal arcs" with FIRST the solver\'s solution of the begins-with equations; LL(1)-ness decided by the solver must coincide with generate_grammar accepting/raising, also on two complete systematic families of two-rule grammars (20640 + 870 members: every term with <=3 operators incl. self and mutual reference) and a seeded random family (1-3 rules, <=6 operators); token keys of a second generation with another namespace must belong to that namespace. Bounded model checking level: unbounded in sentences, bounded in the set of grammars.',
   note='Trusted: the 90-line EBNF reader vp/ebnf.py, state elimination in vp/zgrammar.py, z3 5.1 regex/Bool solver. Four in-memory corruptions of the tables (broken twins) must be refuted on every run. Counterexamples are replayed without the solver by vp/replay_grammar.py.'),
 'C09': dict(engine='z-regex + x-crosshair', ref='DESIGN.md 3.1, 3.3, 4/C09',
   technique='SMT-backed symbolic execution (CrossHair/z3) of the real tokenizer + z3 regular-language lemmas over its live patterns',
   text='Bounded model checking. (Z) z3 decides, for strings of unbounded length, lemmas over the sre parse trees of parso\'s compiled patterns: every prefix the tokenizer can assemble is tiled by the prefix lexer (minus the recorded known finding), progress, match-or-character availability, no line break inside NAME/NUMBER/OP, number dispatch, no ambiguous repetition body in any token pattern (T9: necessary condition for exponential backtracking, with a timing replay). (X) CrossHair executes tokenize(), split_prefix(), _split_illegal_unicode_name(), _close_fstring_if_necessary() on symbolic inputs and decides G_tok (lossless, true positions, balanced INDENT/DEDENT, pure prefixes, lexical classes) over all paths: every 1-char text and every 2-char text with a listed first character over ALL of Unicode, 1-char full-Unicode holes in 24 skeletons (f-strings, continuations, BOM, brackets, indentation), prefixes of length <=2/3. Texts outside these families are not claimed.',
   note='Trusted: vp/rx.py translator (validated against re each run), vp/oracle.py reference walk/purity predicate (validated on the repository test corpus by tools/validate_oracles.py), CrossHair 0.0.110 with vp/chplugin.py. Reachability twin per condition; two broken twins per run must be refuted. Counterexamples replay on plain /venv python.'),
 'C16': dict(engine='x-crosshair', ref='DESIGN.md 4/C16',
   technique='SMT-backed symbolic execution (CrossHair/z3) of the real cache code against a stubbed environment; inductive step + bounded histories',
   text='Bounded model checking with an inductive step: from an ARBITRARY cache state satisfying the representation invariant (symbolic time stamps in ms, presence/staleness flags) one arbitrary operation must serve the current tree and re-establish the invariant, decided over all paths; plus all 3-step (thorough: 4-step) histories over 8 operations and all 4-step histories over two keys differing in file/grammar/cache dir; plus in-flight writes (known finding).',
   note='Assumes the environment model in vp/harness/cachew.py (in-memory fs/clock/pickle, stub parser and diff parser), writes strictly advance mtime, one clock. Real code under test: Grammar.parse cache branches and all of parso/cache.py load/save/evict/clean-up.'),
 'C17': dict(engine='x-crosshair', ref='DESIGN.md 4/C17', category='model_checking',
   technique='SMT-backed symbolic execution (CrossHair/z3) with fault-injection stubs: symbolic fault point, error kind and time stamps',
   text='Bounded model checking over a fault model: one torn/garbage/wrong-type pickle (10 exception kinds) with arbitrary fresh-looking time stamps; one failing file operation among 9 primitives x realistic OSError kinds incl. a crash inside pickle.dump; vanished cache directory; maintenance with arbitrary atime/mtime/lock times. Decided over all paths: parse succeeds with the current tree, a later save repairs, active entries survive clean-up.',
   note='Same environment model as C16 plus fault stubs; torn files are modelled by the exception unpickling raises, not by real byte streams; two processes are modelled as faults at call boundaries.'),
}

_X = 'SMT-backed symbolic execution (CrossHair/z3) of the real code'
_N = ('Trusted: CrossHair 0.0.110 + vp/chplugin.py, the tree oracles of vp/treeoracle.py (validated on the repository test corpus and by '
      'native brute force over the harness families), reference walk in vp/oracle.py. Every condition has a reachability twin; '
      'counterexamples are replayed on plain /venv python before a VIOLATION is printed; inconclusive conditions are listed, never counted.')
CHECKS.update({
 'C01': dict(engine='x-crosshair', ref='DESIGN.md 4/C01', technique=_X + ': symbolic Unicode character / identifier spelling / byte through tokenizer+parser',
   text='Bounded model checking: get_code() == input, leaves tile the input, every subtree is its contiguous slice - decided over all paths for a symbolic character (ALL of Unicode) in holes of skeleton texts through the real tokenizer and error-recovering parser, for symbolic identifier spellings on token streams, for bytes input with a symbolic byte and BOM flag, for split_lines on all 3-character strings; label holes (every token of the grammar at every position of short programs) enumerated completely by the solver. Tokenizer-only obligations (all 1-/2-character texts) are C09\'s.',
   note=_N),
 'C02': dict(engine='x-crosshair', ref='DESIGN.md 4/C02', technique=_X + ': symbolic spellings; complete label holes through the error-recovering parser',
   text='Bounded model checking of totality and well-formedness (no exception, termination, parent-less file_input ending in the end marker, non-empty interior nodes, str leaves): symbolic identifier spellings (all one-character Unicode identifiers, all two-character ASCII identifiers incl. keywords) on token streams; every label of the grammar inserted at / replacing every position of short programs incl. f-strings (realised, complete); thorough tier adds symbolic Unicode characters in text holes and pairs of labels. Nesting depth near 100 is not claimed.',
   note=_N),
 'C03': dict(engine='x-crosshair', ref='DESIGN.md 4/C03', technique=_X + ': unit laws with symbolic strings/ints + pipeline holes',
   text='Bounded model checking: Leaf.end_pos for every value of length <=3 over all of Unicode and every start position, prefix starts of first leaves and after zero-width indentation error leaves, against a reference walk; pipeline conditions (symbolic Unicode character in skeleton texts, spellings, label holes): walking the input reproduces every start/end, node = first/last leaf, module end = end of input.',
   note=_N),
 'C04': dict(engine='x-crosshair', ref='DESIGN.md 4/C04', technique='solver-enumerated (realised, complete) edit histories on the real diff parser + symbolic unit lemmas of its position arithmetic',
   text='WEAK bounded claim: all one-edit histories (every third line index in quick), two-edit histories near a fixed first edit, edit/undo/redo/truncate histories over 6 base files x a 20-line pool: incremental tree == fresh parse (types, values, prefixes, start and end positions, parents), text reproduced, used-names fresh, same syntax and PEP 8 issues. Symbolic: _update_positions for any offset, _ends_with_newline over Unicode. Symbolic text cannot pass difflib (hashing), so the histories are realised dimensions.',
   note=_N),
 'C05': dict(engine='x-crosshair + z-grammar', ref='DESIGN.md 4/C05', technique=_X + ' against an independent reading of the grammar text (conformance oracle)',
   text='Bounded model checking: every non-error node is a sentence of its rule (oracle: independent EBNF reader, unit-derivation closure, documented conventions), error nodes/leaves only in file_input / suite / block position - decided on symbolic spellings (incl. keywords) and complete label holes incl. generic defs (3.14), positional-only markers, files ending after a block header.',
   note=_N),
 'C06': dict(engine='z-grammar + x-crosshair', ref='DESIGN.md 4/C06', technique='SMT (z3) language equivalence, table and Datalog FOLLOW queries on the real tables + solver-enumerated derivations through the real parser',
   text='Table level, unbounded in sentences: DFA = right-hand side for every rule, table = terminal arcs + FIRST, LL(1), no nullable rule, no FIRST/FOLLOW conflict (all 9 shipped grammars). Engine level, bounded: derivations from file_input/eval_input through every selected focus rule with free arc choices, rendered, parsed strictly and with recovery; tree == derivation after the collapsing conventions.',
   note=_N + ' Derivation generator validated natively on 700k derivations.'),
 'C07': dict(engine='x-crosshair', ref='DESIGN.md 4/C07', technique=_X + ': both parser modes on symbolic spellings and complete label holes',
   text='Bounded model checking: strict parsing raises iff the recovered tree has an error; equal trees otherwise; reported leaf = earliest error of the recovering parser - on symbolic spellings (token level, both parsers on the same stream) and complete label holes through Grammar.parse in both modes (incl. files without final newline and trailing comments, a grammar error followed by a tokenizer error).',
   note=_N),
 'C10': dict(engine='z-regex', ref='DESIGN.md 4/C10', technique='SMT (z3) regular-language equality between parso\'s live token patterns and the reference interpreters\' tokenize tables; z3 model of indentation columns',
   text='PARTIAL claim (token classes; streams only on a small family): for each of 3.6-3.13 (3.14 judged by 3.13) language equalities/inclusions for Number, string starts and prefixes, one-line strings, Comment, Whitespace, operators vs the exact table, first-match=longest for operators, identifier characters in Name; indentation order vs CPython\'s column rule on whitespace words <=6 (form feed = known finding). Stream level: parso vs the pure-Python reference tokenizer (Lib/tokenize.py of 3.11) on 20 little valid programs with a hole ranging over the complete ASCII alphabet (realised, both tokenizers run natively): same significant tokens, texts and positions whenever the reference tokenizes without error.',
   note='Trusted: reference = regexes of Lib/tokenize.py and token.EXACT_TOKEN_TYPES read from each interpreter under /root/.pyenv/versions at run time; vp/rx.py translator.'),
 'C11': dict(engine='x-crosshair', ref='DESIGN.md 4/C11', technique=_X + ': every integer position on a tree family; synthetic tree with symbolic positions',
   text='Bounded model checking: get_leaf_for_position / get_name_of_position for EVERY integer (line, column) on 11 trees (error nodes, zero-width error leaves, touching tokens, BOM) and on a synthetic 3-level tree with symbolic positions/widths equal the linear specification; navigation laws for every leaf/node index of the family.',
   note=_N),
 'C13': dict(engine='x-crosshair', ref='DESIGN.md 4/C13', technique=_X + ': iter_errors on spellings over an adversarial alphabet and complete label holes',
   text='Bounded model checking of iter_errors: no exception, tree unchanged, codes/messages/ranges well-formed, at most one issue per line, every error leaf / outermost error node reported, deterministic.',
   note=_N + ' The unbounded prefix lemma T8 (C09) covers the split_prefix crash path.'),
 'C15': dict(engine='z-regex + x-crosshair', ref='DESIGN.md 4/C15', technique='SMT (z3) differential between parso\'s declaration regex and CPython\'s cookie_re/blank_re; CrossHair on split_lines',
   text='Decoding: z3 decides over all ASCII first-two-line texts that parso finds a coding declaration iff CPython\'s rule does; members replayed through both decoders. split_lines laws for all strings of length <=3 over Unicode; fresh result lists; bytes input with symbolic byte/BOM.',
   note='Reference: tokenize.cookie_re / blank_re / detect_encoding of the running interpreter. \\r and non-ASCII in the first two lines are outside the lemma.'),
 'C18': dict(engine='x-crosshair', ref='DESIGN.md 4/C18', technique='solver-enumerated (realised, complete) schedules / prior histories on the real code: frame condition, isolation, cooperative re-entrancy',
   text='PARTIAL claim: frame condition on all shared state incl. function defaults and class-level containers; results independent of prior calls incl. aborted ones; a complete call of B between any two tokens / visited leaves of A on the same grammar object changes neither result; interleaved token generators; load_grammar path/version orders. OS-thread preemption inside a step is not modelled.',
   note=_N),
 'C19': dict(engine='x-crosshair', ref='DESIGN.md 4/C19', technique=_X + ': refactor splice with symbolic replacement strings; serialisation round trips on complete label holes',
   text='Bounded model checking: Grammar.refactor is the exact splice for symbolic (any Unicode, possibly empty) replacement strings and every node pair of 3 trees; eval(dump(indent)) x4 styles and pickle x2 protocols reproduce every tree of the label-hole family.',
   note=_N),
 'C20': dict(engine='x-crosshair', ref='DESIGN.md 4/C20', technique=_X + ': PEP 8 normalizer on spellings over an adversarial alphabet and complete label holes, two configurations',
   text='Bounded model checking of _get_normalizer_issues: no exception (minus the recorded indentation-stack finding, subtracted by call site), tree unchanged, well-formed non-negative ranges, no duplicates, deterministic, W292 exact on error-free trees; default and tab/10-column configuration.',
   note=_N),
})

NA = {
 'C12': 'oracle is CPython\'s compiler (C code) for eight versions; CrossHair realises at that boundary and no machine-readable reference grammar/semantic-check specification exists offline to encode (DESIGN.md section 8)',
 'C14': 'reference semantics is CPython\'s ast module (C extension); same obstacle as C12 (DESIGN.md section 8)',
}
