"""Source of MANIFEST.json (run /verif/tools/mk_manifest.py after editing)."""
TODO = 'check not built yet in this round (planned, see DESIGN.md section 4); not claimed until it exists'
CHECKS = {
 'C08': dict(engine='z-grammar', ref='DESIGN.md 3.2, 4/C08',
   technique='SMT (z3) regular-language equivalence and table queries over the real generated automata',
   text='Decision by z3 for all sentences (unbounded length) of every rule of every shipped grammar file: L(generated DFA) = L(right-hand side read independently from the text); one propositional query per grammar over all (state, token) pairs for domain/next state/push chain = "terminal arcs + FIRST of nonterminal arcs" with FIRST the solver\'s solution of the begins-with equations; LL(1)-ness decided by the solver must coincide with generate_grammar accepting/raising, also on a seeded family of synthetic grammars (bounded: family is sampled, 1-3 rules, <=6 operators). Bounded model checking level: unbounded in sentences, bounded in the set of grammars.',
   note='Trusted: the 90-line EBNF reader vp/ebnf.py, state elimination in vp/zgrammar.py, z3 5.1 regex/Bool solver. Four in-memory corruptions of the tables (broken twins) must be refuted on every run. Counterexamples are replayed without the solver by vp/replay_grammar.py.'),
}
NA = {
 'C12': 'oracle is CPython\'s compiler (C code) for eight versions; CrossHair realises at that boundary and no machine-readable reference grammar/semantic-check specification exists offline to encode (DESIGN.md section 8)',
 'C14': 'reference semantics is CPython\'s ast module (C extension); same obstacle as C12 (DESIGN.md section 8)',
}
for _p in ['C01','C02','C03','C04','C05','C06','C07','C09','C10','C11','C13','C15','C16','C17','C18','C19','C20']:
    NA.setdefault(_p, TODO)
