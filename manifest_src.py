"""Source of MANIFEST.json (run /verif/tools/mk_manifest.py after editing)."""
TODO = 'check not built yet in this round (planned, see DESIGN.md section 4); not claimed until it exists'
CHECKS = {
 'C08': dict(engine='z-grammar', ref='DESIGN.md 3.2, 4/C08',
   technique='SMT (z3) regular-language equivalence and table queries over the real generated automata',
   text='Decision by z3 for all sentences (unbounded length) of every rule of every shipped grammar file: L(generated DFA) = L(right-hand side read independently from the text); one propositional query per grammar over all (state, token) pairs for domain/next state/push chain = "terminal arcs + FIRST of nonterminal arcs" with FIRST the solver\'s solution of the begins-with equations; LL(1)-ness decided by the solver must coincide with generate_grammar accepting/raising, also on a seeded family of synthetic grammars (bounded: family is sampled, 1-3 rules, <=6 operators). Bounded model checking level: unbounded in sentences, bounded in the set of grammars.',
   note='Trusted: the 90-line EBNF reader vp/ebnf.py, state elimination in vp/zgrammar.py, z3 5.1 regex/Bool solver. Four in-memory corruptions of the tables (broken twins) must be refuted on every run. Counterexamples are replayed without the solver by vp/replay_grammar.py.'),
 'C09': dict(engine='z-regex + x-crosshair', ref='DESIGN.md 3.1, 3.3, 4/C09',
   technique='SMT-backed symbolic execution (CrossHair/z3) of the real tokenizer + z3 regular-language lemmas over its live patterns',
   text='Bounded model checking. (Z) z3 decides, for strings of unbounded length, lemmas over the sre parse trees of parso\'s compiled patterns: every prefix the tokenizer can assemble is tiled by the prefix lexer (minus the recorded known finding), progress, match-or-character availability, no line break inside NAME/NUMBER/OP, number dispatch. (X) CrossHair executes tokenize(), split_prefix(), _split_illegal_unicode_name(), _close_fstring_if_necessary() on symbolic inputs and decides G_tok (lossless, true positions, balanced INDENT/DEDENT, pure prefixes, lexical classes) over all paths: every 1-char text and every 2-char text with a listed first character over ALL of Unicode, 1-char full-Unicode holes in 24 skeletons (f-strings, continuations, BOM, brackets, indentation), prefixes of length <=2/3. Texts outside these families are not claimed.',
   note='Trusted: vp/rx.py translator (validated against re each run), vp/oracle.py reference walk/purity predicate (validated on the repository test corpus by tools/validate_oracles.py), CrossHair 0.0.110 with vp/chplugin.py. Reachability twin per condition; two broken twins per run must be refuted. Counterexamples replay on plain /venv python.'),
 'C16': dict(engine='x-crosshair', ref='DESIGN.md 4/C16',
   technique='SMT-backed symbolic execution (CrossHair/z3) of the real cache code against a stubbed environment; inductive step + bounded histories',
   text='Bounded model checking with an inductive step: from an ARBITRARY cache state satisfying the representation invariant (symbolic time stamps in ms, presence/staleness flags) one arbitrary operation must serve the current tree and re-establish the invariant, decided over all paths; plus all 3-step (thorough: 4-step) histories over 8 operations and all 4-step histories over two keys differing in file/grammar/cache dir; plus in-flight writes (known finding).',
   note='Assumes the environment model in vp/harness/cachew.py (in-memory fs/clock/pickle, stub parser and diff parser), writes strictly advance mtime, one clock. Real code under test: Grammar.parse cache branches and all of parso/cache.py load/save/evict/clean-up.'),
 'C17': dict(engine='x-crosshair', ref='DESIGN.md 4/C17', category='model_checking',
   technique='SMT-backed symbolic execution (CrossHair/z3) with fault-injection stubs: symbolic fault point, error kind and time stamps',
   text='Bounded model checking over a fault model: one torn/garbage/wrong-type pickle (10 exception kinds) with arbitrary fresh-looking time stamps; one failing file operation among 9 primitives x realistic OSError kinds incl. a crash inside pickle.dump; vanished cache directory; maintenance with arbitrary atime/mtime/lock times. Decided over all paths: parse succeeds with the current tree, a later save repairs, active entries survive clean-up.',
   note='Same environment model as C16 plus fault stubs; torn files are modelled by the exception unpickling raises, not by real byte streams; two processes are modelled as faults at call boundaries.'),
}
NA = {
 'C12': 'oracle is CPython\'s compiler (C code) for eight versions; CrossHair realises at that boundary and no machine-readable reference grammar/semantic-check specification exists offline to encode (DESIGN.md section 8)',
 'C14': 'reference semantics is CPython\'s ast module (C extension); same obstacle as C12 (DESIGN.md section 8)',
}
for _p in ['C01','C02','C03','C04','C05','C06','C07','C10','C11','C13','C15','C18','C19','C20']:
    NA.setdefault(_p, TODO)
