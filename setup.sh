#!/bin/sh
# Build the /venv-based overlay with CrossHair + z3 from the offline wheelhouse.
set -e
cd "$(dirname "$0")"
V=.venv
if [ -x "$V/bin/python" ] && "$V/bin/python" -c "import crosshair, z3, parso" 2>/dev/null; then
    exit 0
fi
rm -rf "$V"
/venv/bin/python -m venv "$V"
SP=$("$V/bin/python" -c "import sysconfig;print(sysconfig.get_paths()['purelib'])")
printf "import site; site.addsitedir('/venv/lib/python3.12/site-packages')\n" > "$SP/_verif_overlay.pth"
PIP_NO_INDEX=1 "$V/bin/python" -m pip install -q --no-index --find-links /opt/veriftools/wheels crosshair-tool z3-solver >/dev/null
"$V/bin/python" -c "import crosshair, z3, parso; print('overlay ok', z3.get_version_string())"
